package fw

import (
	"encoding/json"
	"fmt"
	"os"
	"path/filepath"
	"runtime"
	"runtime/debug"
	"runtime/pprof"
	"sync/atomic"
	"syscall"
	"time"

	"github.com/jsightapi/jsight-api-go-library/scanner"

	"verifharness/internal/run"
	"verifharness/internal/xrand"
)

// WorkerArgs configures one worker process.
type WorkerArgs struct {
	CheckID  string
	Tier     string
	Seed     uint64
	Shard    int
	NShards  int
	Out      string // result file
	Progress string // progress file: key of the case being run
	Scratch  string
	Skip     map[string]bool // case keys to skip (they crashed the process before)
	Resume   string          // partial result to resume from
	Only     string          // when set: run just the case with this key (confirmation of a hang in a fresh process)
}

const (
	// ExitHang is the worker's exit code when one case used more CPU than the per-case cap.
	ExitHang = 3
	// ExitMem is the exit code when the heap grew beyond the cap.
	ExitMem = 4
	// CaseCPUCapSeconds is the CPU budget of one execution (user CPU time of the process, not wall clock). System time
	// is left out: on an overcommitted machine the kernel's share of a process's time grows with the load (the second
	// thorough sweep ran next to twenty compiling agents and four executions of the heaviest fixture, 0.2 s of work each,
	// were charged more than 40 s), user time does not.
	CaseCPUCapSeconds = 60
	// HeapCapBytes is the heap cap.
	HeapCapBytes = 6 << 30
)

// cpuCap is CaseCPUCapSeconds; VERIF_SELFTEST_CPU_CAP lowers it to exercise the watchdog and the confirmation path.
func cpuCap() float64 {
	if v := os.Getenv("VERIF_SELFTEST_CPU_CAP"); v != "" {
		var f float64
		if _, err := fmt.Sscan(v, &f); err == nil && f > 0 {
			return f
		}
	}
	return CaseCPUCapSeconds
}

func cpuSeconds() float64 {
	var ru syscall.Rusage
	if err := syscall.Getrusage(syscall.RUSAGE_SELF, &ru); err != nil {
		return 0
	}
	return float64(ru.Utime.Sec) + float64(ru.Utime.Usec)/1e6
}

var caseStartCPU atomic.Value // float64
var caseSerial atomic.Int64

var caseStartWall atomic.Int64 // unix nanoseconds

func touchWatchdog() {
	caseStartCPU.Store(cpuSeconds())
	caseStartWall.Store(time.Now().UnixNano())
}

// BlockedWallSeconds: an execution that has used (almost) no CPU for this long is blocked in a system call - e.g. reading
// a named pipe nobody writes to. The CPU cap cannot see that; this is the only place where wall-clock time decides, and it
// does so only together with "no CPU was used", which load on the machine cannot cause.
const BlockedWallSeconds = 180

// StartWatchdog and TouchWatchdog give helper processes (the fresh processes a driver starts to compare results) the
// watchdog of the workers: TouchWatchdog marks the beginning of the next execution.
func StartWatchdog() { startWatchdog() }

func TouchWatchdog() {
	touchWatchdog()
	caseSerial.Add(1)
}

func startWatchdog() {
	caseStartCPU.Store(cpuSeconds())
	go func() {
		lastSerial := int64(-1)
		for {
			time.Sleep(500 * time.Millisecond)
			ser := caseSerial.Load()
			now := cpuSeconds()
			if ser != lastSerial {
				lastSerial = ser
				continue
			}
			start, _ := caseStartCPU.Load().(float64)
			if w := caseStartWall.Load(); w != 0 && time.Since(time.Unix(0, w)) > BlockedWallSeconds*time.Second && now-start < 2 {
				fmt.Fprintf(os.Stderr, "\nVERIF-HANG: case blocked for more than %d s without using the CPU\n", BlockedWallSeconds)
				_ = pprof.Lookup("goroutine").WriteTo(os.Stderr, 2)
				os.Exit(ExitHang)
			}
			if now-start > cpuCap() {
				fmt.Fprintf(os.Stderr, "\nVERIF-HANG: case used more than %d CPU seconds\n", CaseCPUCapSeconds)
				_ = pprof.Lookup("goroutine").WriteTo(os.Stderr, 2)
				os.Exit(ExitHang)
			}
			var ms runtime.MemStats
			runtime.ReadMemStats(&ms)
			if ms.HeapAlloc > HeapCapBytes {
				fmt.Fprintf(os.Stderr, "\nVERIF-MEM: heap grew to %d bytes\n", ms.HeapAlloc)
				_ = pprof.Lookup("goroutine").WriteTo(os.Stderr, 1)
				os.Exit(ExitMem)
			}
		}
	}()
}

// RunWorker runs one shard of a check and writes the result file.
func RunWorker(a WorkerArgs) int {
	chk := Lookup(a.CheckID)
	if chk == nil {
		fmt.Fprintf(os.Stderr, "unknown check %s\n", a.CheckID)
		return 2
	}
	debug.SetMaxStack(64 << 20)
	run.SetScratch(a.Scratch)
	startWatchdog()

	res := newResult()
	if a.Resume != "" {
		if b, err := os.ReadFile(a.Resume); err == nil {
			var r Result
			if json.Unmarshal(b, &r) == nil {
				res = &r
				res.afterLoad()
			}
		}
	}
	t := &T{Check: chk, Tier: a.Tier, Seed: a.Seed, res: res}

	pf, err := os.OpenFile(a.Progress, os.O_CREATE|os.O_WRONLY|os.O_TRUNC, 0o644)
	if err != nil {
		fmt.Fprintln(os.Stderr, err)
		return 2
	}
	defer pf.Close()

	save := func(done bool) {
		res.Done = done
		res.beforeSave()
		res.Coverage = scanner.VerifCoveragePairs()
		b, _ := json.Marshal(res)
		tmp := a.Out + ".tmp"
		_ = os.WriteFile(tmp, b, 0o644)
		_ = os.Rename(tmp, a.Out)
	}

	runCase := func(f *Family, c *Case) {
		if c == nil {
			return
		}
		c.Check = chk.ID
		c.Family = f.Name
		c.Seed, c.Tier = a.Seed, a.Tier
		if a.Only != "" && c.Key() != a.Only {
			return
		}
		if a.Skip[c.Key()] {
			res.Counters["skipped_after_crash"]++
			return
		}
		// log the case before running it: a fatal error is attributed to it by the driver
		b, _ := json.Marshal(c)
		_, _ = pf.WriteAt(append(b, '\n'), 0)
		_ = pf.Truncate(int64(len(b) + 1))
		touchWatchdog()
		caseSerial.Add(1)
		if os.Getenv("VERIF_SELFTEST_FAKE_HANG") == c.Key() && a.Only == "" {
			// self-test of the confirmation path: the watchdog "fires" at this case in the shard, not in the fresh process
			fmt.Fprintf(os.Stderr, "\nVERIF-HANG: case used more than %d CPU seconds (self-test)\n", CaseCPUCapSeconds)
			os.Exit(ExitHang)
		}
		t.cur = c
		res.Counters["cases"]++
		f.Eval(t, c)
		t.cur = nil
	}

	for fi := res.FamilyIdx; fi < len(chk.Families); fi++ {
		f := &chk.Families[fi]
		start := 0
		if fi == res.FamilyIdx {
			start = res.NextIdx
		}
		if f.Stream != nil {
			// streams restart from their beginning; snapshot first so a crash rolls back to here
			res.FamilyIdx, res.NextIdx = fi, 0
			save(false)
			n := 0
			f.Stream(t, a.Shard, a.NShards, func(c *Case) {
				if c != nil {
					c.Index = n
				}
				n++
				runCase(f, c)
			})
		} else {
			n := f.N(a.Tier)
			sinceSave := 0
			for i := start; i < n; i++ {
				if i%a.NShards != a.Shard {
					continue
				}
				if a.Only != "" && fmt.Sprintf("%s#%d", f.Name, i) != a.Only {
					continue
				}
				if sinceSave == 0 {
					res.FamilyIdx, res.NextIdx = fi, i
					save(false)
				}
				sinceSave = (sinceSave + 1) % 4000
				r := xrand.Derive(a.Seed, i, chk.ID, f.Name)
				c := f.Gen(r, i, a.Tier)
				if c != nil {
					c.Index = i
				}
				runCase(f, c)
			}
		}
	}
	res.FamilyIdx, res.NextIdx = len(chk.Families), 0
	save(true)
	return 0
}

// ReplayDir re-runs a stored case through the same oracle.
func ReplayDir(dir string) int {
	b, err := os.ReadFile(filepath.Join(dir, "case.json"))
	if err != nil {
		fmt.Fprintln(os.Stderr, err)
		return 2
	}
	var v Violation
	if err := json.Unmarshal(b, &v); err != nil {
		fmt.Fprintln(os.Stderr, err)
		return 2
	}
	if v.Case == nil {
		fmt.Printf("replay: no case stored (driver-level finding)\n  signature=%s\n  %s\n", v.Sig, v.Msg)
		return 1
	}
	chk := Lookup(v.Case.Check)
	if chk == nil {
		fmt.Fprintf(os.Stderr, "unknown check %q\n", v.Case.Check)
		return 2
	}
	var fam *Family
	for i := range chk.Families {
		if chk.Families[i].Name == v.Case.Family {
			fam = &chk.Families[i]
		}
	}
	if fam == nil {
		fmt.Fprintf(os.Stderr, "unknown family %q\n", v.Case.Family)
		return 2
	}
	debug.SetMaxStack(64 << 20)
	run.SetScratch(filepath.Join(os.TempDir(), fmt.Sprintf("verif-replay-%d", os.Getpid())))
	defer os.RemoveAll(filepath.Join(os.TempDir(), fmt.Sprintf("verif-replay-%d", os.Getpid())))
	res := newResult()
	rtier, rseed := "quick", uint64(1)
	if v.Case.Tier != "" {
		rtier, rseed = v.Case.Tier, v.Case.Seed
	}
	t := &T{Check: chk, Tier: rtier, Seed: rseed, Replay: true, res: res, Log: func(f string, a ...interface{}) {
		fmt.Printf(f+"\n", a...)
	}}
	fmt.Printf("replay %s family=%s index=%d recorded-signature=%q\n", chk.ID, v.Case.Family, v.Case.Index, v.Sig)
	for i, d := range v.Case.Docs {
		fmt.Printf("  doc[%d] root=%s ban=%v files=%d\n", i, d.Root, d.Ban, len(d.Files))
		for name, content := range d.Files {
			fmt.Printf("    %s: %s\n", name, Short(content, 400))
		}
	}
	t.cur = v.Case
	fam.Eval(t, v.Case)
	if len(res.Violations) == 0 {
		fmt.Println("replay: no violation reproduced")
		return 0
	}
	for _, vv := range res.Violations {
		fmt.Printf("VIOLATION property=%s replay=%s\n", vv.Property, dir)
	}
	return 1
}
