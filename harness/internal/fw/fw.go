// Package fw is the small framework shared by all checks: cases, families of cases,
// the worker loop (one child process per shard, crash-attributing), the driver that
// merges worker results, known-findings handling, evidence and replay.
package fw

import (
	"encoding/json"
	"fmt"
	"os"
	"sort"
	"strings"

	"verifharness/internal/run"
	"verifharness/internal/xrand"
)

// Case is one unit of work: one or more projects plus oracle-specific data.
type Case struct {
	Check  string            `json:"check"`
	Family string            `json:"family"`
	Index  int               `json:"index"`
	Docs   []run.Doc         `json:"docs"`
	Meta   map[string]string `json:"meta,omitempty"`
	Ints   map[string]int    `json:"ints,omitempty"`
	Note   string            `json:"note,omitempty"`
	// Seed and Tier of the run that made the case (a replay regenerates documents from them)
	Seed uint64 `json:"seed,omitempty"`
	Tier string `json:"tier,omitempty"`
}

func (c *Case) Key() string { return fmt.Sprintf("%s#%d", c.Family, c.Index) }

// Family is a named set of cases with one oracle.
type Family struct {
	Name string
	// N returns how many indexed cases the family has for a tier (indexed families).
	N func(tier string) int
	// Gen builds case idx from its own PRNG stream. It may return nil (index not used).
	Gen func(r *xrand.Rand, idx int, tier string) *Case
	// Stream, if set, replaces N/Gen: the family produces its cases itself (feedback loops,
	// enumerations) and hands each to emit. It must be deterministic given (seed, shard, nshards).
	Stream func(t *T, shard, nshards int, emit func(*Case))
	// Eval runs the real code on the case and applies the oracle.
	Eval func(t *T, c *Case)
}

// Check is everything registered for one property.
type Check struct {
	ID          string
	Level       string // exploration | fault_enumeration
	Rule        string
	Assumptions []string
	Families    []Family
	// Floors: counters that must reach a minimum for the run to count as having observed anything.
	Floors map[string]int64
	// Exhaustive is reported in the evidence when the run enumerated its finite space completely.
	Exhaustive bool
	// NeedsRace asks the driver to use the -race binary for workers.
	NeedsRace bool
	// Post runs in the driver after all workers have finished (cross-process steps).
	Post func(d *Driver)
	// Workers overrides the number of worker processes (0 = default).
	Workers int
}

var registry = map[string]*Check{}

func Register(c *Check) { registry[c.ID] = c }

func Lookup(id string) *Check { return registry[id] }

func AllIDs() []string {
	var ids []string
	for k := range registry {
		ids = append(ids, k)
	}
	sort.Strings(ids)
	return ids
}

// Violation is one oracle failure.
type Violation struct {
	Property string `json:"property"`
	Sig      string `json:"signature"`
	Msg      string `json:"message"`
	Case     *Case  `json:"case,omitempty"`
	Fatal    string `json:"fatal_output,omitempty"`
}

// Result is what a worker hands back.
type Result struct {
	Counters   map[string]int64  `json:"counters"`
	Distinct   []uint64          `json:"distinct"`
	DistinctEx []string          `json:"distinct_examples"`
	Samples    []json.RawMessage `json:"samples"`
	Violations []Violation       `json:"violations"`
	Coverage   []string          `json:"coverage,omitempty"`
	// resume position
	FamilyIdx int  `json:"family_idx"`
	NextIdx   int  `json:"next_idx"`
	Done      bool `json:"done"`

	distinctSet map[uint64]struct{}
	sampleCount map[string]int
	vioSigs     map[string]int
}

func newResult() *Result {
	return &Result{
		Counters:    map[string]int64{},
		distinctSet: map[uint64]struct{}{},
		sampleCount: map[string]int{},
		vioSigs:     map[string]int{},
	}
}

func (r *Result) afterLoad() {
	if r.Counters == nil {
		r.Counters = map[string]int64{}
	}
	r.distinctSet = map[uint64]struct{}{}
	for _, h := range r.Distinct {
		r.distinctSet[h] = struct{}{}
	}
	r.sampleCount = map[string]int{}
	r.vioSigs = map[string]int{}
	for _, v := range r.Violations {
		r.vioSigs[v.Sig]++
	}
}

func (r *Result) beforeSave() {
	r.Distinct = r.Distinct[:0]
	for h := range r.distinctSet {
		r.Distinct = append(r.Distinct, h)
	}
	sort.Slice(r.Distinct, func(i, j int) bool { return r.Distinct[i] < r.Distinct[j] })
}

// T is the handle an oracle uses to talk to the framework.
type T struct {
	Check  *Check
	Tier   string
	Seed   uint64
	Replay bool

	res *Result
	cur *Case
	// Log receives human-readable lines in replay mode.
	Log func(format string, a ...interface{})
}

func (t *T) Thorough() bool { return t.Tier == "thorough" }

// Pick returns q in the quick tier and th in the thorough tier.
func (t *T) Pick(q, th int) int {
	if t.Thorough() {
		return th
	}
	return q
}

func (t *T) Count(name string) { t.res.Counters[name]++ }

func (t *T) Add(name string, n int) { t.res.Counters[name] += int64(n) }

// Distinct records one non-trivial behaviour class; the evidence reports how many distinct ones were seen.
func (t *T) Distinct(key string) {
	h := xrand.HashStr(key)
	if _, ok := t.res.distinctSet[h]; !ok {
		t.res.distinctSet[h] = struct{}{}
		if len(t.res.DistinctEx) < 12 {
			t.res.DistinctEx = append(t.res.DistinctEx, key)
		}
	}
}

// Sample keeps up to two real observations per label for the evidence file.
func (t *T) Sample(label string, v interface{}) {
	if t.res.sampleCount[label] >= 2 || len(t.res.Samples) >= 24 {
		return
	}
	t.res.sampleCount[label]++
	b, err := json.Marshal(map[string]interface{}{"label": label, "value": v})
	if err == nil {
		if len(b) > 1500 {
			b, _ = json.Marshal(map[string]interface{}{"label": label, "value": string(b[:1400]) + "…(truncated)"})
		}
		t.res.Samples = append(t.res.Samples, b)
	}
}

// Violation records an oracle failure under a signature (the identity known findings are keyed by).
func (t *T) Violation(sig, msg string) {
	t.res.Counters["violations_raw"]++
	if t.Replay && t.Log != nil {
		t.Log("VIOLATION-DETAIL signature=%q\n  %s", sig, msg)
	}
	n := t.res.vioSigs[sig]
	t.res.vioSigs[sig] = n + 1
	if n >= 1 { // keep the first witness per signature per worker
		return
	}
	var cc *Case
	if t.cur != nil {
		c := *t.cur
		cc = &c
	}
	t.res.Violations = append(t.res.Violations, Violation{Property: t.Check.ID, Sig: sig, Msg: msg, Case: cc})
}

func (t *T) Logf(format string, a ...interface{}) {
	if t.Replay && t.Log != nil {
		t.Log(format, a...)
	}
}

// Exec runs the real library on a project.
func (t *T) Exec(d run.Doc) *run.Obs {
	t.res.Counters["executions"]++
	touchWatchdog() // the CPU cap is per execution of the library, not per case (a case may run a project many times)
	o := run.Exec(d, false)
	t.logObs(d, o)
	return o
}

// ExecKeep is Exec keeping the core for tree inspection.
func (t *T) ExecKeep(d run.Doc) *run.Obs {
	t.res.Counters["executions"]++
	touchWatchdog()
	o := run.Exec(d, true)
	t.logObs(d, o)
	return o
}

func (t *T) logObs(d run.Doc, o *run.Obs) {
	if !t.Replay || t.Log == nil {
		return
	}
	switch o.Outcome {
	case run.Accepted:
		js := string(o.JSON)
		if len(js) > 600 {
			js = js[:600] + "…"
		}
		t.Log("  observed: accepted title=%q json=%s", o.Title, js)
	case run.Rejected:
		t.Log("  observed: rejected msg=%q file=%s index=%d line=%d quote=%q trace=%v", o.Msg, o.File, o.Index, o.Line, o.Quote, o.Trace)
	default:
		t.Log("  observed: %s %s %s frame=%s", o.Outcome, o.NewErr, o.PanicVal, o.PanicFrame)
	}
}

func shorten(s string, n int) string {
	if len(s) <= n {
		return s
	}
	return s[:n] + "…"
}

// Short renders bytes for messages.
func Short(b []byte, n int) string {
	return shorten(fmt.Sprintf("%q", string(b)), n)
}

// ---- known findings ----

type Finding struct {
	Property  string `json:"property"`
	Signature string `json:"signature"`
	Status    string `json:"status"` // known | fixed
	What      string `json:"what"`
	Witness   string `json:"witness,omitempty"`
	Commit    string `json:"commit,omitempty"`
}

func LoadFindings(path string) ([]Finding, error) {
	b, err := os.ReadFile(path)
	if err != nil {
		if os.IsNotExist(err) {
			return nil, nil
		}
		return nil, err
	}
	var ff struct {
		Findings []Finding `json:"findings"`
	}
	if err := json.Unmarshal(b, &ff); err != nil {
		return nil, err
	}
	return ff.Findings, nil
}

func matchFinding(ff []Finding, prop, sig string) *Finding {
	for i := range ff {
		f := &ff[i]
		if f.Status != "known" || f.Property != prop {
			continue
		}
		if f.Signature == sig {
			return f
		}
	}
	return nil
}

// SigSafe makes a signature fragment from arbitrary text.
func SigSafe(s string) string {
	s = strings.ReplaceAll(s, "\n", " ")
	if len(s) > 140 {
		s = s[:140]
	}
	return s
}

// ---- auxiliary subcommands (driver-spawned helper processes) ----

var auxRegistry = map[string]func(args []string) int{}

func RegisterAux(name string, f func(args []string) int) { auxRegistry[name] = f }

func LookupAux(name string) func(args []string) int { return auxRegistry[name] }
