package fw

import (
	"crypto/sha1"
	"encoding/hex"
	"encoding/json"
	"fmt"
	"os"
	"os/exec"
	"path/filepath"
	"regexp"
	"runtime"
	"sort"
	"strconv"
	"strings"
	"sync"
	"sync/atomic"
	"time"
)

// Driver runs a check: spawns workers, merges, judges, writes evidence.
type Driver struct {
	Check   *Check
	Tier    string
	Seed    uint64
	Root    string // /verif
	Self    string // path of the jsmon binary
	RaceBin string // path of the -race jsmon binary (may be empty)
	WorkDir string

	Merged       *Result
	Inconclusive []string
	extraViol    []Violation
	Extra        map[string]interface{} // extra evidence keys
	start        time.Time

	// cases at which the CPU watchdog fired once and that ran to their end alone in a fresh process
	hangsNotReproduced []string
}

func (d *Driver) AddViolation(sig, msg string, c *Case) {
	d.extraViol = append(d.extraViol, Violation{Property: d.Check.ID, Sig: sig, Msg: msg, Case: c})
}

func (d *Driver) AddInconclusive(why string) { d.Inconclusive = append(d.Inconclusive, why) }

func (d *Driver) SetExtra(k string, v interface{}) {
	if d.Extra == nil {
		d.Extra = map[string]interface{}{}
	}
	d.Extra[k] = v
}

func (d *Driver) Count(name string, n int64) { d.Merged.Counters[name] += n }

func (d *Driver) Distinct(key string) {
	d.Merged.distinctSet[hashKey(key)] = struct{}{}
}

func (d *Driver) Sample(label string, v interface{}) {
	b, err := json.Marshal(map[string]interface{}{"label": label, "value": v})
	if err == nil && len(d.Merged.Samples) < 40 {
		d.Merged.Samples = append(d.Merged.Samples, b)
	}
}

func hashKey(s string) uint64 {
	h := uint64(14695981039346656037)
	for i := 0; i < len(s); i++ {
		h ^= uint64(s[i])
		h *= 1099511628211
	}
	return h ^ 0x5bd1e995
}

type shardState struct {
	id       int
	skip     []string
	restarts int
	res      *Result
	failed   string
}

var fatalRe = regexp.MustCompile(`(?m)^(fatal error: .*|panic: .*|runtime: .*|VERIF-HANG.*|VERIF-MEM.*|WARNING: DATA RACE)$`)

func classifyFatal(stderr string) (class, frame string) {
	m := fatalRe.FindString(stderr)
	if m == "" {
		m = "worker died without a recognisable message"
	}
	class = normNum(m)
	frame = "unknown"
	if strings.Contains(class, "goroutine stack exceeds") {
		// a runaway recursion: the function on top when the limit was hit is a matter of chance; the one that fills the
		// stack names the fault
		counts := map[string]int{}
		best := ""
		seen := 0
		for _, line := range strings.Split(stderr, "\n") {
			l := strings.TrimSpace(line)
			if !strings.HasPrefix(l, "github.com/jsightapi/") && !strings.HasPrefix(l, "github.com/lucasjones/") {
				continue
			}
			if i := strings.LastIndex(l, "("); i > 0 {
				l = l[:i]
			}
			l = recvClean(strings.TrimPrefix(l, "github.com/jsightapi/"))
			counts[l]++
			if counts[l] > counts[best] || best == "" {
				best = l
			}
			if seen++; seen > 200 {
				break
			}
		}
		if best != "" {
			return class, best
		}
	}
	for _, line := range strings.Split(stderr, "\n") {
		l := strings.TrimSpace(line)
		if strings.HasPrefix(l, "github.com/jsightapi/") || strings.HasPrefix(l, "github.com/lucasjones/") {
			if strings.Contains(l, "verifStep") || strings.Contains(l, "verifPaste") {
				continue
			}
			if i := strings.LastIndex(l, "("); i > 0 {
				l = l[:i]
			}
			l = strings.TrimPrefix(l, "github.com/jsightapi/")
			frame = recvClean(l)
			break
		}
	}
	return class, frame
}

var recvCleanRe = regexp.MustCompile(`\(\*?([A-Za-z0-9_]+)\)`)

func recvClean(s string) string { return recvCleanRe.ReplaceAllString(s, "$1") }

var numRe2 = regexp.MustCompile(`0x[0-9a-fA-F]+|[0-9]+`)

func normNum(s string) string { return numRe2.ReplaceAllString(s, "N") }

var hangsConfirmed atomic.Int64

// confirmHang runs one case alone in a fresh worker process under the same watchdog and tells whether it hangs again.
func (d *Driver) confirmHang(bin string, args []string, shard int, key string, wall time.Duration) bool {
	out := filepath.Join(d.WorkDir, fmt.Sprintf("confirm%d.json", shard))
	prog := filepath.Join(d.WorkDir, fmt.Sprintf("confirm%d.progress", shard))
	errf := filepath.Join(d.WorkDir, fmt.Sprintf("confirm%d.stderr", shard))
	_ = os.Remove(out)
	var cargs []string
	for i := 0; i < len(args); i++ {
		switch args[i] {
		case "-out":
			cargs = append(cargs, "-out", out)
			i++
		case "-progress":
			cargs = append(cargs, "-progress", prog)
			i++
		case "-skipfile", "-resume":
			i++
		default:
			cargs = append(cargs, args[i])
		}
	}
	cargs = append(cargs, "-only", key)
	cmd := exec.Command(bin, cargs...)
	ef, _ := os.Create(errf)
	defer ef.Close()
	cmd.Stderr, cmd.Stdout = ef, ef
	cmd.Env = append(os.Environ(), "GORACE=halt_on_error=1", "GOTRACEBACK=all")
	if err := cmd.Start(); err != nil {
		return true
	}
	done := make(chan error, 1)
	go func() { done <- cmd.Wait() }()
	select {
	case err := <-done:
		if err != nil {
			return true
		}
	case <-time.After(wall):
		_ = cmd.Process.Kill()
		<-done
		return true
	}
	var r Result
	b, err := os.ReadFile(out)
	if err != nil || json.Unmarshal(b, &r) != nil || !r.Done {
		return true
	}
	// the case ran to its end there: what its oracle found counts
	if len(r.Violations) > 0 {
		confirmMu.Lock()
		d.extraViol = append(d.extraViol, r.Violations...)
		confirmMu.Unlock()
	}
	return false
}

var confirmMu sync.Mutex

// Run executes the check and returns the process exit code.
func (d *Driver) Run() int {
	d.start = time.Now()
	chk := d.Check
	nw := runtime.NumCPU()
	if nw > 16 {
		nw = 16
	}
	if chk.Workers > 0 {
		nw = chk.Workers
	}
	if len(chk.Families) == 0 {
		nw = 0
	}
	d.WorkDir = filepath.Join(d.Root, ".work", fmt.Sprintf("%s-%s-%d", chk.ID, d.Tier, os.Getpid()))
	_ = os.RemoveAll(d.WorkDir)
	if err := os.MkdirAll(d.WorkDir, 0o755); err != nil {
		fmt.Fprintln(os.Stderr, err)
		return 2
	}
	defer os.RemoveAll(d.WorkDir)

	shards := make([]*shardState, nw)
	var wg sync.WaitGroup
	var mu sync.Mutex
	var fatals []Violation
	wall := 1200 * time.Second
	if d.Tier == "thorough" {
		wall = 3 * time.Hour
	}
	for i := 0; i < nw; i++ {
		shards[i] = &shardState{id: i}
		wg.Add(1)
		go func(s *shardState) {
			defer wg.Done()
			out := filepath.Join(d.WorkDir, fmt.Sprintf("shard%d.json", s.id))
			prog := filepath.Join(d.WorkDir, fmt.Sprintf("shard%d.progress", s.id))
			errf := filepath.Join(d.WorkDir, fmt.Sprintf("shard%d.stderr", s.id))
			for {
				bin := d.Self
				if chk.NeedsRace && d.RaceBin != "" {
					bin = d.RaceBin
				}
				args := []string{"worker", "-check", chk.ID, "-tier", d.Tier, "-seed", strconv.FormatUint(d.Seed, 10),
					"-shard", strconv.Itoa(s.id), "-nshards", strconv.Itoa(nw), "-out", out, "-progress", prog,
					"-scratch", filepath.Join(d.WorkDir, fmt.Sprintf("scratch%d", s.id))}
				if len(s.skip) > 0 {
					sf := filepath.Join(d.WorkDir, fmt.Sprintf("shard%d.skip", s.id))
					_ = os.WriteFile(sf, []byte(strings.Join(s.skip, "\n")), 0o644)
					args = append(args, "-skipfile", sf, "-resume", out)
				}
				cmd := exec.Command(bin, args...)
				ef, _ := os.Create(errf)
				cmd.Stderr = ef
				cmd.Stdout = ef
				cmd.Env = append(os.Environ(), "GORACE=halt_on_error=1", "GOTRACEBACK=all")
				done := make(chan error, 1)
				if err := cmd.Start(); err != nil {
					s.failed = err.Error()
					ef.Close()
					return
				}
				go func() { done <- cmd.Wait() }()
				var werr error
				timedOut := false
				select {
				case werr = <-done:
				case <-time.After(wall):
					_ = cmd.Process.Kill()
					werr = <-done
					timedOut = true
				}
				ef.Close()
				if timedOut {
					s.failed = "wall-clock watchdog fired"
					return
				}
				var r Result
				b, rerr := os.ReadFile(out)
				if rerr == nil {
					rerr = json.Unmarshal(b, &r)
				}
				if werr == nil && rerr == nil && r.Done {
					r.afterLoad()
					s.res = &r
					return
				}
				// the worker died: attribute to the last logged case
				stderrB, _ := os.ReadFile(errf)
				stderr := string(stderrB)
				if len(stderr) > 200000 {
					stderr = stderr[:100000] + "\n…\n" + stderr[len(stderr)-100000:]
				}
				var c Case
				pb, _ := os.ReadFile(prog)
				havecase := json.Unmarshal(pb, &c) == nil && c.Family != ""
				class, frame := classifyFatal(stderr)
				sig := "fatal:" + class + "@" + frame
				v := Violation{Property: chk.ID, Sig: sig, Msg: "worker process died: " + class + " in " + frame, Fatal: tailStr(headStr(stderr, 6000), 6000)}
				if havecase {
					cc := c
					v.Case = &cc
				}
				if strings.HasPrefix(class, "VERIF-HANG") && havecase {
					// The watchdog reads the CPU clock of the whole process (the executing goroutine, the collector's threads,
					// spinning idle threads), in a process that has run thousands of cases on a loaded machine. Its firing alone
					// is not a verdict: the case is run again, alone, in a fresh process under the same watchdog. Only a hang
					// that shows again is reported; one that does not is counted and named in the evidence.
					if d.confirmHang(bin, args, s.id, c.Key(), wall) {
						v.Msg += " (reproduced alone in a fresh process)"
						if hangsConfirmed.Add(1) >= 3 {
							mu.Lock()
							fatals = append(fatals, v)
							mu.Unlock()
							s.failed = "executions keep hanging: " + class
							return
						}
					} else {
						mu.Lock()
						d.hangsNotReproduced = append(d.hangsNotReproduced, fmt.Sprintf("%s %s (%s)", c.Key(), c.Note, frame))
						mu.Unlock()
						s.restarts++
						if s.restarts > 40 {
							s.failed = "worker keeps dying: " + class
							return
						}
						s.skip = append(s.skip, c.Key())
						continue
					}
				}
				mu.Lock()
				fatals = append(fatals, v)
				mu.Unlock()
				s.restarts++
				if !havecase || s.restarts > 40 {
					s.failed = "worker keeps dying: " + class
					return
				}
				s.skip = append(s.skip, c.Key())
			}
		}(shards[i])
	}
	wg.Wait()

	merged := newResult()
	covSet := map[string]struct{}{}
	for _, s := range shards {
		if s.failed != "" {
			d.Inconclusive = append(d.Inconclusive, fmt.Sprintf("shard %d: %s", s.id, s.failed))
		}
		if s.res == nil {
			continue
		}
		for k, v := range s.res.Counters {
			merged.Counters[k] += v
		}
		for h := range s.res.distinctSet {
			merged.distinctSet[h] = struct{}{}
		}
		for _, e := range s.res.DistinctEx {
			if len(merged.DistinctEx) < 16 {
				merged.DistinctEx = append(merged.DistinctEx, e)
			}
		}
		for _, sm := range s.res.Samples {
			if len(merged.Samples) < 30 {
				merged.Samples = append(merged.Samples, sm)
			}
		}
		merged.Violations = append(merged.Violations, s.res.Violations...)
		for _, c := range s.res.Coverage {
			covSet[c] = struct{}{}
		}
	}
	merged.Violations = append(merged.Violations, fatals...)
	if len(d.hangsNotReproduced) > 0 {
		merged.Counters["watchdog_fired_not_reproduced_in_fresh_process"] = int64(len(d.hangsNotReproduced))
		sort.Strings(d.hangsNotReproduced)
		d.SetExtra("watchdog_fired_not_reproduced_in_fresh_process", d.hangsNotReproduced)
	}
	for c := range covSet {
		merged.Coverage = append(merged.Coverage, c)
	}
	sort.Strings(merged.Coverage)
	d.Merged = merged

	if chk.Post != nil {
		chk.Post(d)
	}
	merged.Violations = append(merged.Violations, d.extraViol...)

	for name, floor := range chk.Floors {
		if merged.Counters[name] < floor {
			d.Inconclusive = append(d.Inconclusive, fmt.Sprintf("observation floor missed: %s=%d < %d", name, merged.Counters[name], floor))
		}
	}
	return d.finish()
}

func headStr(s string, n int) string {
	if len(s) <= n {
		return s
	}
	return s[:n]
}

func tailStr(s string, n int) string {
	if len(s) <= n {
		return s
	}
	return s[len(s)-n:]
}

func (d *Driver) finish() int {
	chk := d.Check
	merged := d.Merged
	findings, err := LoadFindings(filepath.Join(d.Root, "known_findings.json"))
	if err != nil {
		fmt.Fprintf(os.Stderr, "known_findings.json: %v\n", err)
		return 2
	}
	// group by signature
	bySig := map[string][]Violation{}
	var sigs []string
	for _, v := range merged.Violations {
		if _, ok := bySig[v.Sig]; !ok {
			sigs = append(sigs, v.Sig)
		}
		bySig[v.Sig] = append(bySig[v.Sig], v)
	}
	sort.Strings(sigs)
	newViol := 0
	knownSeen := 0
	for _, sig := range sigs {
		v := bySig[sig][0]
		if f := matchFinding(findings, chk.ID, sig); f != nil {
			knownSeen++
			fmt.Printf("KNOWN-FINDING: property=%s %s [signature=%s]\n", chk.ID, f.What, sig)
			continue
		}
		newViol++
		sum := sha1.Sum([]byte(sig))
		dir := filepath.Join(d.Root, "replays", chk.ID, hex.EncodeToString(sum[:6]))
		_ = os.MkdirAll(dir, 0o755)
		b, _ := json.MarshalIndent(v, "", " ")
		_ = os.WriteFile(filepath.Join(dir, "case.json"), b, 0o644)
		if v.Case != nil {
			for di, doc := range v.Case.Docs {
				for name, content := range doc.Files {
					p := filepath.Join(dir, fmt.Sprintf("doc%d", di), name)
					_ = os.MkdirAll(filepath.Dir(p), 0o755)
					if !strings.HasSuffix(name, "/") {
						_ = os.WriteFile(p, content, 0o644)
					}
				}
			}
		}
		if v.Fatal != "" {
			_ = os.WriteFile(filepath.Join(dir, "fatal_output.txt"), []byte(v.Fatal), 0o644)
		}
		fmt.Printf("VIOLATION property=%s replay=%s\n", chk.ID, dir)
		fmt.Printf("  signature: %s\n  %s\n", sig, shorten(v.Msg, 1200))
	}

	wall := time.Since(d.start).Seconds()
	merged.beforeSave()
	cov := map[string]interface{}{
		"evaluations":         merged.Counters["cases"] + merged.Counters["driver_evaluations"],
		"distinct_nontrivial": len(merged.Distinct),
		"rule":                chk.Rule,
		"counters":            merged.Counters,
		"distinct_examples":   merged.DistinctEx,
		"known_findings_seen": knownSeen,
	}
	samples := make([]interface{}, 0, len(merged.Samples))
	for _, s := range merged.Samples {
		var x interface{}
		if json.Unmarshal(s, &x) == nil {
			samples = append(samples, x)
		}
	}
	cov["samples"] = samples
	if len(merged.Coverage) > 0 {
		cov["scanner_state_class_pairs_visited"] = len(merged.Coverage)
	}
	if chk.Exhaustive {
		cov["exhaustive"] = true
	}
	if len(d.Inconclusive) > 0 {
		cov["inconclusive"] = d.Inconclusive
	}
	for k, v := range d.Extra {
		cov[k] = v
	}
	ev := map[string]interface{}{
		"property_id": chk.ID,
		"tier":        d.Tier,
		"seed":        d.Seed,
		"level":       chk.Level,
		"coverage":    cov,
		"assumptions": chk.Assumptions,
		"wall_s":      wall,
		"violations":  newViol,
	}
	b, _ := json.MarshalIndent(ev, "", " ")
	evDir := filepath.Join(d.Root, "evidence")
	if os.Getenv("VERIF_REPO") != "" {
		// a drill against a scratch copy of the library: its evidence must not replace that of the real tree
		evDir = filepath.Join(d.Root, ".build", "drill-evidence")
	}
	_ = os.MkdirAll(evDir, 0o755)
	if err := os.WriteFile(filepath.Join(evDir, chk.ID+".json"), b, 0o644); err != nil {
		fmt.Fprintln(os.Stderr, err)
	}
	fmt.Printf("%s %s seed=%d: cases=%d executions=%d distinct=%d known_findings=%d new_violations=%d wall=%.1fs\n",
		chk.ID, d.Tier, d.Seed, cov["evaluations"], merged.Counters["executions"], len(merged.Distinct), knownSeen, newViol, wall)
	if newViol > 0 {
		return 1
	}
	if len(d.Inconclusive) > 0 {
		for _, w := range d.Inconclusive {
			fmt.Printf("INCONCLUSIVE property=%s %s\n", chk.ID, w)
		}
		return 2
	}
	return 0
}
