// Package mut holds the seeded byte/token mutators and the token alphabet.
package mut

import (
	"bytes"

	"verifharness/internal/xrand"
)

// Keywords of the language.
var Keywords = []string{
	"JSIGHT", "INFO", "Title", "Version", "Description", "SERVER", "BaseUrl", "URL", "GET", "POST", "PUT",
	"PATCH", "DELETE", "Body", "Request", "Path", "Headers", "Query", "TYPE", "ENUM", "MACRO", "PASTE",
	"INCLUDE", "Protocol", "Method", "Params", "Result", "TAG", "Tags", "200", "404",
}

// Dict is the insertion dictionary.
var Dict = append(append([]string{}, Keywords...),
	"jsight", "regex", "any", "empty", "json-rpc-2.0", "htmlFormEncoded", "noFormat", "###", "//", "/*", "*/", "0.3",
	"@a", "[@a]", "/a/{id}", "{}", "[]", "{\"a\":1}", "\"", "\\", "(", ")", "#", "\n", "\r\n", "\r", "\t", " ",
	"// {enum: @e}", "// {allOf: @a}", "// {or: [@a, @b]}", "// {type: \"@a\"}", "@a | @b", "/ab+c/",
	"/^[A-Z]:\\\\/ # x /", "\\\\/", " /", "à", "Å", "\"regex\"", "\"any\"", "\"@a\"", "\"[@a]\"", "\"jsight\"",
)

// Bytes that matter to the grammar.
var hot = []byte("()#/*\"\\{}[]@:,\r\n\t \x00\xff-.|JIUGPTMEDSRBQHV1250\x85\xa0\x0b\x0c\xc3")

// Tokens is the alphabet of the token-sequence enumerator.
var Tokens = []string{
	"JSIGHT", "INFO", "Title", "Version", "Description", "SERVER", "BaseUrl", "URL", "GET", "POST", "PUT",
	"PATCH", "DELETE", "Body", "Request", "Path", "Headers", "Query", "TYPE", "ENUM", "MACRO", "PASTE",
	"INCLUDE", "Protocol", "Method", "Params", "Result", "TAG", "Tags", "200",
	"(", ")", "\n", " ", "#c", "###c###", "//a", "/*a*/", "/*/",
	"@t", "[@t]", "/p/{id}", "\"q s\"", "\"\\\\\"", "regex", "any", "empty", "jsight", "0.3", "json-rpc-2.0", "x.jst",
	"{}", "{\"a\":1}", "[]", "[\"a\"]", "/re/", "text",
	"\x00", "\xff",
	// bodies that end in an escaped backslash, a later lone slash, bytes that are blanks only in Latin-1
	"/a\\\\/", "#c /", "/voil\xc3\xa0", "\xc3\x85", "\x0b", "\xa0",
	// directive prefixes that expect a body on the next line
	"TYPE @r regex\n", "TYPE @j\n", "ENUM @e\n", "200 regex\n", "Description\n",
	// the ends of the response-code range, annotations closed by several asterisks, an enum body with a comment on its line, a TAB
	"599", "100", "/*a**/", "/**a*/", "[1] #c", "\t",
	// a complete directive whose schema body holds a zero byte where the schema library lets it pass (a comment)
	"TYPE @z\n{ # z\x00\n}\n",
}

// Joiners used between tokens.
var Joiners = []string{"", " ", "\n"}

// Mutate applies 1..3 seeded mutations. other is a second corpus file for splicing.
func Mutate(r *xrand.Rand, in []byte, other []byte) []byte {
	b := append([]byte{}, in...)
	n := 1 + r.Intn(3)
	for k := 0; k < n; k++ {
		b = one(r, b, other)
	}
	return b
}

func pos(r *xrand.Rand, n int) int {
	if n <= 0 {
		return 0
	}
	return r.Intn(n + 1)
}

func one(r *xrand.Rand, b []byte, other []byte) []byte {
	switch r.Intn(13) {
	case 0: // truncate
		if len(b) == 0 {
			return b
		}
		return b[:r.Intn(len(b))]
	case 1: // delete a byte
		if len(b) == 0 {
			return b
		}
		i := r.Intn(len(b))
		return append(b[:i:i], b[i+1:]...)
	case 2: // insert a hot byte
		i := pos(r, len(b))
		c := hot[r.Intn(len(hot))]
		return append(b[:i:i], append([]byte{c}, b[i:]...)...)
	case 3: // replace a byte
		if len(b) == 0 {
			return b
		}
		i := r.Intn(len(b))
		out := append([]byte{}, b...)
		out[i] = hot[r.Intn(len(hot))]
		return out
	case 4: // LF -> CRLF wholesale
		return bytes.ReplaceAll(b, []byte("\n"), []byte("\r\n"))
	case 5: // LF -> CR wholesale
		return bytes.ReplaceAll(b, []byte("\n"), []byte("\r"))
	case 6: // one line end changed
		idx := indexes(b, '\n')
		if len(idx) == 0 {
			return b
		}
		i := idx[r.Intn(len(idx))]
		rep := [][]byte{[]byte("\r\n"), []byte("\r"), []byte("\n\n"), []byte(" ")}[r.Intn(4)]
		return append(b[:i:i], append(append([]byte{}, rep...), b[i+1:]...)...)
	case 7: // splice a chunk of another file
		if len(other) == 0 {
			return b
		}
		s := r.Intn(len(other))
		e := s + r.Intn(len(other)-s+1)
		if e-s > 200 {
			e = s + 200
		}
		i := pos(r, len(b))
		return append(b[:i:i], append(append([]byte{}, other[s:e]...), b[i:]...)...)
	case 8, 9: // insert a dictionary token
		tok := Dict[r.Intn(len(Dict))]
		i := pos(r, len(b))
		if r.Bool() { // at a line start
			idx := indexes(b, '\n')
			if len(idx) > 0 {
				i = idx[r.Intn(len(idx))] + 1
			}
		}
		ins := tok
		if r.Bool() {
			ins = tok + " "
		}
		if r.Chance(1, 4) {
			ins = "\n" + ins + "\n"
		}
		return append(b[:i:i], append([]byte(ins), b[i:]...)...)
	case 10: // delete a span
		if len(b) < 2 {
			return b
		}
		s := r.Intn(len(b))
		e := s + 1 + r.Intn(min(len(b)-s, 40))
		return append(b[:s:s], b[e:]...)
	case 11: // duplicate a line
		idx := indexes(b, '\n')
		if len(idx) < 2 {
			return b
		}
		k := r.Intn(len(idx) - 1)
		line := b[idx[k]+1 : idx[k+1]+1]
		i := idx[r.Intn(len(idx))] + 1
		return append(b[:i:i], append(append([]byte{}, line...), b[i:]...)...)
	default: // swap two lines
		idx := indexes(b, '\n')
		if len(idx) < 3 {
			return b
		}
		k := r.Intn(len(idx) - 2)
		l1 := append([]byte{}, b[idx[k]+1:idx[k+1]+1]...)
		l2 := append([]byte{}, b[idx[k+1]+1:idx[k+2]+1]...)
		out := append([]byte{}, b[:idx[k]+1]...)
		out = append(out, l2...)
		out = append(out, l1...)
		out = append(out, b[idx[k+2]+1:]...)
		return out
	}
}

func indexes(b []byte, c byte) []int {
	var out []int
	for i, x := range b {
		if x == c {
			out = append(out, i)
		}
	}
	return out
}

func min(a, b int) int {
	if a < b {
		return a
	}
	return b
}

// Newlines rewrites LF line ends: mode 0 as is, 1 CRLF, 2 CR.
func Newlines(b []byte, mode int) []byte {
	switch mode {
	case 1:
		b = bytes.ReplaceAll(b, []byte("\r\n"), []byte("\n"))
		return bytes.ReplaceAll(b, []byte("\n"), []byte("\r\n"))
	case 2:
		b = bytes.ReplaceAll(b, []byte("\r\n"), []byte("\n"))
		return bytes.ReplaceAll(b, []byte("\n"), []byte("\r"))
	}
	return b
}
