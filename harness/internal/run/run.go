// Package run executes the real library on one project ("document") and records
// everything the oracles look at in an observation.
package run

import (
	"syscall"
	"fmt"
	"os"
	"path/filepath"
	"regexp"
	"runtime"
	"runtime/debug"
	"strings"
	"sync"

	sbytes "github.com/jsightapi/jsight-schema-go-library/bytes"
	"github.com/jsightapi/jsight-schema-go-library/fs"

	"github.com/jsightapi/jsight-api-go-library/catalog"
	"github.com/jsightapi/jsight-api-go-library/core"
	"github.com/jsightapi/jsight-api-go-library/directive"
	"github.com/jsightapi/jsight-api-go-library/jerr"
	"github.com/jsightapi/jsight-api-go-library/kit"
	"github.com/jsightapi/jsight-api-go-library/scanner"
)

// Doc is one project: a set of files, the root, and the options.
type Doc struct {
	Files map[string][]byte `json:"files"`
	Root  string            `json:"root"`
	// Ban lists directive keywords to ban (WithBannedDirectives); "HTTP-response-code" for response codes.
	Ban []string `json:"ban,omitempty"`
	// FixedSeed turns on WithFixedSeedForRegex.
	FixedSeed bool `json:"fixed_seed,omitempty"`
	// BaseDir, if set, is an existing absolute directory: the (single, in-memory) root file is
	// named as if it lived there, so INCLUDE resolves against real fixture files. Nothing is written.
	BaseDir string `json:"base_dir,omitempty"`
	// OnDisk forces the project to be written to scratch and read through kit.NewJapi.
	OnDisk bool `json:"on_disk,omitempty"`
	// ReuseDir (not serialised): a directory that already holds every file of the project except the root,
	// which alone is rewritten. Used by enumerations that change only the root file.
	ReuseDir string `json:"-"`
}

func Single(content []byte) Doc {
	return Doc{Files: map[string][]byte{"root.jst": content}, Root: "root.jst"}
}

type TraceItem struct {
	Path string `json:"path"`
	Line uint   `json:"line"`
}

type RecEvent struct {
	Site      string `json:"site"`
	Val       string `json:"val"`
	IsRuntime bool   `json:"is_runtime"`
	Frame     string `json:"frame"`
}

// Outcomes.
const (
	Accepted = "accepted"
	Rejected = "rejected"
	NewError = "new_error"
	Panic    = "panic"
	Budget   = "budget_exceeded"
)

type Obs struct {
	Outcome string `json:"outcome"`

	JSON       []byte `json:"json,omitempty"`
	JSONIndent []byte `json:"-"`
	JSONErr    string `json:"json_err,omitempty"`
	Title      string `json:"title,omitempty"`

	Msg      string      `json:"msg,omitempty"`
	ErrText  string      `json:"err_text,omitempty"`
	Index    uint        `json:"index,omitempty"`
	Line     uint        `json:"line,omitempty"`
	Quote    string      `json:"quote,omitempty"`
	File     string      `json:"file,omitempty"` // as named by the library (absolute or in-memory name)
	FileRel  string      `json:"file_rel,omitempty"`
	FileData []byte      `json:"-"`
	Trace    []TraceItem `json:"trace,omitempty"`

	NewErr string `json:"new_err,omitempty"`

	PanicVal   string `json:"panic_val,omitempty"`
	PanicFrame string `json:"panic_frame,omitempty"`
	PanicStack string `json:"panic_stack,omitempty"`

	Recovered     []RecEvent `json:"recovered,omitempty"`
	PasteDepthMax int        `json:"paste_depth_max,omitempty"`

	// Dir is where the project was materialised ("" for in-memory runs).
	Dir string `json:"-"`
	// Core is kept for the checks that read the directive trees (not serialised).
	Core *core.JApiCore `json:"-"`
}

// MemDir is the fictitious directory of in-memory root files.
const MemDir = "/verif-nonexistent"

var (
	scratchMu  sync.Mutex
	scratchDir string
	scratchSeq int
)

// SetScratch sets the directory under which on-disk projects are materialised.
func SetScratch(dir string) { scratchMu.Lock(); scratchDir = dir; scratchMu.Unlock() }

func nextScratch() string {
	scratchMu.Lock()
	defer scratchMu.Unlock()
	scratchSeq++
	if scratchDir == "" {
		scratchDir = filepath.Join(os.TempDir(), fmt.Sprintf("verif-scratch-%d", os.Getpid()))
	}
	return filepath.Join(scratchDir, fmt.Sprintf("p%d", scratchSeq%64))
}

// Materialise writes the project under a fresh scratch directory and returns it.
func Materialise(d Doc) (string, error) {
	dir := nextScratch()
	_ = os.RemoveAll(dir)
	for name, content := range d.Files {
		p := filepath.Join(dir, name)
		if err := os.MkdirAll(filepath.Dir(p), 0o755); err != nil {
			return dir, err
		}
		if strings.HasSuffix(name, "@symlink") { // symbolic link: content is the target
			_ = os.Remove(strings.TrimSuffix(p, "@symlink"))
			if err := os.Symlink(string(content), strings.TrimSuffix(p, "@symlink")); err != nil {
				return dir, err
			}
			continue
		}
		if strings.HasSuffix(name, "@fifo") { // named pipe (nobody ever writes to it)
			_ = os.Remove(strings.TrimSuffix(p, "@fifo"))
			if err := syscall.Mkfifo(strings.TrimSuffix(p, "@fifo"), 0o644); err != nil {
				return dir, err
			}
			continue
		}
		if strings.HasSuffix(name, "/") { // directory entry
			if err := os.MkdirAll(p, 0o755); err != nil {
				return dir, err
			}
			continue
		}
		if err := os.WriteFile(p, content, 0o644); err != nil {
			return dir, err
		}
	}
	return dir, nil
}

func Options(d Doc) ([]core.Option, error) {
	var oo []core.Option
	if d.FixedSeed {
		oo = append(oo, core.WithFixedSeedForRegex())
	}
	if len(d.Ban) > 0 {
		var ee []directive.Enumeration
		for _, b := range d.Ban {
			e, err := BanEnum(b)
			if err != nil {
				return nil, err
			}
			ee = append(ee, e)
		}
		oo = append(oo, core.WithBannedDirectives(ee...))
	}
	return oo, nil
}

func BanEnum(b string) (directive.Enumeration, error) {
	if b == "HTTP-response-code" {
		return directive.HTTPResponseCode, nil
	}
	return directive.NewDirectiveType(b)
}

var hookMu sync.Mutex // serialises use of the process-wide recover hook

// Exec runs NewJapi/ValidateJAPI/ToJson/ToJsonIndent/Title on the project under recover().
// keepCore keeps a reference to the core for tree inspection.
func Exec(d Doc, keepCore bool) *Obs { return exec(d, keepCore, true) }

// ExecConcurrent is Exec without the process-wide recover hook, safe to call from many goroutines.
func ExecConcurrent(d Doc) *Obs { return exec(d, false, false) }

func exec(d Doc, keepCore, hook bool) (o *Obs) {
	o = &Obs{}
	oo, err := Options(d)
	if err != nil {
		o.Outcome = NewError
		o.NewErr = "harness: " + err.Error()
		return o
	}

	if hook {
		hookMu.Lock()
		defer hookMu.Unlock()
		catalog.VerifSetRecoveredHook(func(site string, r interface{}) {
			_, isRT := r.(runtime.Error)
			o.Recovered = append(o.Recovered, RecEvent{
				Site: site, Val: fmt.Sprint(r), IsRuntime: isRT, Frame: innermostFrame(string(debug.Stack())),
			})
		})
		defer catalog.VerifSetRecoveredHook(func(string, interface{}) {})
		sbytes.VerifPanicHook = func(r interface{}) {
			_, isRT := r.(runtime.Error)
			if !isRT {
				return
			}
			o.Recovered = append(o.Recovered, RecEvent{
				Site: "schema-library panics.Handle", Val: fmt.Sprint(r), IsRuntime: true, Frame: innermostFrame(string(debug.Stack())),
			})
		}
		defer func() { sbytes.VerifPanicHook = nil }()
	}

	defer func() {
		if r := recover(); r != nil {
			switch v := r.(type) {
			case scanner.VerifBudgetExceeded:
				o.Outcome = Budget
				o.PanicVal = v.Error()
			case core.VerifBudgetExceeded:
				o.Outcome = Budget
				o.PanicVal = v.Error()
			default:
				o.Outcome = Panic
				o.PanicVal = fmt.Sprint(r)
			}
			st := string(debug.Stack())
			o.PanicFrame = innermostFrame(st)
			o.PanicStack = trimStack(st)
		}
	}()

	var j kit.JApi
	onDisk := d.OnDisk || len(d.Files) != 1
	if onDisk {
		var dir string
		var err error
		if d.ReuseDir != "" {
			dir = d.ReuseDir
			err = os.WriteFile(filepath.Join(dir, d.Root), d.Files[d.Root], 0o644)
		} else {
			dir, err = Materialise(d)
		}
		if err != nil {
			o.Outcome = NewError
			o.NewErr = "harness: " + err.Error()
			return o
		}
		o.Dir = dir
		j, err = kit.NewJapi(filepath.Join(dir, d.Root), oo...)
		if err != nil {
			o.Outcome = NewError
			o.NewErr = err.Error()
			return o
		}
	} else {
		base := d.BaseDir
		if base == "" {
			base = MemDir
		}
		o.Dir = base
		j = kit.NewJApiFromFile(fs.NewFile(filepath.Join(base, d.Root), d.Files[d.Root]), oo...)
	}
	if keepCore {
		o.Core = j.VerifCore()
	}

	je := j.ValidateJAPI()
	o.PasteDepthMax = j.VerifCore().VerifPasteDepthMax()
	if je != nil {
		o.Outcome = Rejected
		fillErr(o, je)
		return o
	}
	o.Outcome = Accepted
	o.Title = j.Title()
	b, err := j.ToJson()
	if err != nil {
		o.JSONErr = "ToJson: " + err.Error()
	}
	o.JSON = b
	bi, err := j.ToJsonIndent()
	if err != nil {
		o.JSONErr += " ToJsonIndent: " + err.Error()
	}
	o.JSONIndent = bi
	return o
}

func fillErr(o *Obs, je *jerr.JApiError) {
	o.Msg = je.Msg
	o.ErrText = je.Error()
	o.Index = uint(je.Index())
	o.Line = uint(je.Line())
	o.Quote = je.Quote()
	o.File = je.VerifFileName()
	o.FileData = je.VerifFileContent()
	if o.Dir != "" {
		if rel, err := filepath.Rel(o.Dir, o.File); err == nil {
			o.FileRel = rel
		}
	}
	for _, t := range je.VerifIncludeTrace() {
		o.Trace = append(o.Trace, TraceItem{Path: t.Path, Line: t.Line})
	}
}

var recvRe = regexp.MustCompile(`\(\*?([A-Za-z0-9_]+)\)`)

// innermostFrame returns the innermost function of the library (or its schema dependency)
// found in a stack dump below the panic, without line numbers:
// e.g. "jsight-api-go-library/core.JApiCore.processContextBegin".
func innermostFrame(stack string) string {
	lines := strings.Split(stack, "\n")
	start := 0
	for i, line := range lines {
		if strings.HasPrefix(line, "panic(") {
			start = i + 1
		}
	}
	for _, line := range lines[start:] {
		if !strings.HasPrefix(line, "github.com/jsightapi/") && !strings.HasPrefix(line, "github.com/lucasjones/") {
			continue
		}
		if strings.Contains(line, "VerifRecovered") || strings.Contains(line, "verifRecovered") ||
			strings.Contains(line, "verifStep") || strings.Contains(line, "verifPaste") {
			continue
		}
		fn := line
		if i := strings.LastIndex(fn, "("); i > 0 {
			fn = fn[:i]
		}
		fn = strings.TrimPrefix(fn, "github.com/jsightapi/")
		fn = strings.TrimPrefix(fn, "github.com/lucasjones/")
		fn = recvRe.ReplaceAllString(fn, "$1")
		fn = strings.ReplaceAll(fn, "[...]", "")
		return fn
	}
	return "unknown"
}

func trimStack(st string) string {
	lines := strings.Split(st, "\n")
	if len(lines) > 60 {
		lines = lines[:60]
	}
	return strings.Join(lines, "\n")
}

var numRe = regexp.MustCompile(`[0-9]+`)
var hexRe = regexp.MustCompile(`0x[0-9a-fA-F]+`)

// NormMsg replaces numbers by N so that messages group into classes.
func NormMsg(s string) string {
	s = hexRe.ReplaceAllString(s, "0xN")
	s = numRe.ReplaceAllString(s, "N")
	if len(s) > 160 {
		s = s[:160]
	}
	return s
}

var quotedRe = regexp.MustCompile(`"(?:[^"\\]|\\.)*"|'[^']*'`)

// MsgTemplate additionally drops quoted fragments, giving a coarse message class.
func MsgTemplate(s string) string {
	s = quotedRe.ReplaceAllString(s, `"…"`)
	if i := strings.IndexByte(s, '\n'); i >= 0 {
		s = s[:i]
	}
	return NormMsg(s)
}

// RuntimeFaultText reports whether a diagnostic text carries the signature of a Go runtime fault.
func RuntimeFaultText(s string) bool {
	for _, p := range []string{
		"runtime error", "nil pointer", "index out of range", "slice bounds out of range",
		"invalid memory address", "interface conversion", "integer divide by zero",
		"makeslice", "out of memory", "stack overflow", "nil map", "goroutine ",
	} {
		if strings.Contains(s, p) {
			return true
		}
	}
	return false
}

// ExecFile validates a project whose root already exists on disk (no hooks, used by strace-observed helpers).
func ExecFile(path string) *Obs {
	o := &Obs{}
	defer func() {
		if r := recover(); r != nil {
			o.Outcome = Panic
			o.PanicVal = fmt.Sprint(r)
		}
	}()
	j, err := kit.NewJapi(path)
	if err != nil {
		o.Outcome = NewError
		o.NewErr = err.Error()
		return o
	}
	if je := j.ValidateJAPI(); je != nil {
		o.Outcome = Rejected
		o.Msg = je.Msg
		o.ErrText = je.Error()
		return o
	}
	o.Outcome = Accepted
	o.JSON, _ = j.ToJson()
	return o
}

// ScratchSub returns a named directory under the scratch area of this process.
func ScratchSub(name string) string {
	scratchMu.Lock()
	defer scratchMu.Unlock()
	if scratchDir == "" {
		scratchDir = filepath.Join(os.TempDir(), fmt.Sprintf("verif-scratch-%d", os.Getpid()))
	}
	return filepath.Join(scratchDir, name)
}
