// Package xrand is a tiny deterministic PRNG (splitmix64) with hashing helpers.
// No wall-clock, no global state: every case derives its stream from (seed, labels, index).
package xrand

type Rand struct{ s uint64 }

func New(seed uint64) *Rand { return &Rand{s: seed} }

func mix(z uint64) uint64 {
	z = (z ^ (z >> 30)) * 0xbf58476d1ce4e5b9
	z = (z ^ (z >> 27)) * 0x94d049bb133111eb
	return z ^ (z >> 31)
}

// HashStr is FNV-1a 64 followed by a mix.
func HashStr(s string) uint64 {
	h := uint64(14695981039346656037)
	for i := 0; i < len(s); i++ {
		h ^= uint64(s[i])
		h *= 1099511628211
	}
	return mix(h)
}

// Derive builds a generator from a seed, textual labels and an index.
func Derive(seed uint64, idx int, labels ...string) *Rand {
	h := mix(seed + 0x9e3779b97f4a7c15)
	for _, l := range labels {
		h = mix(h ^ HashStr(l))
	}
	h = mix(h ^ (uint64(idx)+1)*0x9e3779b97f4a7c15)
	return &Rand{s: h}
}

func (r *Rand) Uint64() uint64 {
	r.s += 0x9e3779b97f4a7c15
	return mix(r.s)
}

func (r *Rand) Intn(n int) int {
	if n <= 0 {
		return 0
	}
	return int(r.Uint64() % uint64(n))
}

// Range returns a value in [lo, hi].
func (r *Rand) Range(lo, hi int) int {
	if hi <= lo {
		return lo
	}
	return lo + r.Intn(hi-lo+1)
}

func (r *Rand) Bool() bool { return r.Uint64()&1 == 1 }

// Chance returns true with probability num/den.
func (r *Rand) Chance(num, den int) bool { return r.Intn(den) < num }

func (r *Rand) Pick(ss []string) string { return ss[r.Intn(len(ss))] }

func (r *Rand) Perm(n int) []int {
	p := make([]int, n)
	for i := range p {
		p[i] = i
	}
	for i := n - 1; i > 0; i-- {
		j := r.Intn(i + 1)
		p[i], p[j] = p[j], p[i]
	}
	return p
}

func (r *Rand) Fork() *Rand { return &Rand{s: mix(r.Uint64())} }
