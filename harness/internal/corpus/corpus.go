// Package corpus loads the fixture corpus (all .jst files under /repo/testdata, including the
// directories the repo's own suite skips) plus /verif/corpus.
package corpus

import (
	"os"
	"path/filepath"
	"sort"
	"strings"
	"sync"
)

type Entry struct {
	Path    string // absolute
	Dir     string
	Name    string
	Content []byte
	// HasJSON is true when a snapshot .json sits next to the file (a positive fixture).
	HasJSON bool
}

var (
	once    sync.Once
	entries []Entry
)

func RepoDir() string {
	if d := os.Getenv("VERIF_REPO"); d != "" {
		return d
	}
	return "/repo"
}

func VerifDir() string {
	if d := os.Getenv("VERIF_ROOT"); d != "" {
		return d
	}
	return "/verif"
}

func load() {
	var out []Entry
	for _, root := range []string{filepath.Join(RepoDir(), "testdata"), filepath.Join(VerifDir(), "corpus")} {
		_ = filepath.Walk(root, func(p string, info os.FileInfo, err error) error {
			if err != nil || info.IsDir() {
				return nil
			}
			if !strings.HasSuffix(p, ".jst") {
				return nil
			}
			b, err := os.ReadFile(p)
			if err != nil {
				return nil
			}
			_, jerr := os.Stat(strings.TrimSuffix(p, ".jst") + ".json")
			out = append(out, Entry{Path: p, Dir: filepath.Dir(p), Name: filepath.Base(p), Content: b, HasJSON: jerr == nil})
			return nil
		})
	}
	sort.Slice(out, func(i, j int) bool { return out[i].Path < out[j].Path })
	entries = out
}

// All returns every corpus entry, sorted by path.
func All() []Entry {
	once.Do(load)
	return entries
}

// Small returns the entries of at most max bytes.
func Small(max int) []Entry {
	var out []Entry
	for _, e := range All() {
		if len(e.Content) <= max {
			out = append(out, e)
		}
	}
	return out
}
