// Package gen holds the abstract API model, its random generator, the renderer to JSight text
// (with styles and a span map) and the projector to the expected catalog.
package gen

import (
	"fmt"
	"strings"

	"verifharness/internal/xrand"
)

// ---- schema fragment ----

type SNode struct {
	Kind string // int float string bool null ref or array object
	Val  string // literal as written (strings without quotes)
	Ref  string
	Or   []string
	Items []*SNode
	Props []*SProp

	Optional bool
	Min, Max *int
	EnumRef  string
	AllOf    []string
	Note     string
	// OrAlts is an explicit or-rule on a scalar: "@type" or the name of a built-in type ("integer", "string"…).
	OrAlts []string
}

type SProp struct {
	Key  string
	Node *SNode
	// KeyRef: the key is a user-type reference written without quotes (@name : value): "any key that matches that type".
	KeyRef bool
	// From: set on the copies that DeclaredPathProps hands out for properties a Path body inherits (allOf)
	From string
}

// ---- bodies ----

type Body struct {
	Form   string // ref | refarray | schema | regex | any | empty
	Ref    string
	Schema *SNode
	Regex  string
	// AsChild: written as a Body child directive instead of on the directive line.
	AsChild bool
}

type Request struct {
	Headers *SNode
	Body    Body
}

type Response struct {
	Code       string
	Annotation string
	Headers    *SNode
	Body       Body
}

type Query struct {
	Example string
	Format  string // "" (default htmlFormEncoded) | htmlFormEncoded | noFormat
	Schema  *SNode
}

type Method struct {
	Verb        string
	Path        string // full path of the interaction
	OwnPath     bool   // path written on the method line (stand-alone or hoisted)
	Annotation  string
	Description []string
	Tags        []string
	Query       *Query
	PathDecl    *SNode // Path directive under the method (object of scalars)
	Request     *Request
	Responses   []*Response
	// DescFirst: Description is written before the other children (else after Tags/Query/Path).
	DescFirst bool
}

type RPCMethod struct {
	Name        string
	Annotation  string
	Description []string
	Tags        []string
	Params      *SNode
	Result      *SNode
}

// Block is one top-level declaration.
type Block struct {
	Kind string // info server type enum tag macro url rpcurl method

	// info
	Title, Version string
	Description    []string

	// server / type / enum / tag / macro
	Name       string
	Annotation string
	BaseURL    string
	Notation   string // jsight regex any empty (type)
	Schema     *SNode
	Regex      string
	EnumVals   []EnumVal

	// url / rpcurl
	Path     string
	Tags     []string
	PathDecl *SNode
	Methods  []*Method
	RPC      []*RPCMethod
	// ProtoAfter: the Protocol directive of a JSON-RPC URL is written after that many of its Method directives (0: first)
	ProtoAfter int

	// method (stand-alone, path-bearing)
	Method *Method

	// macro: a list of nodes rendered inside; used only by the checks that build macros on purpose
	MacroBody []*Block
}

type EnumVal struct {
	Kind string // string int float bool null
	Val  string
	Note string
}

type Model struct {
	Blocks []*Block
}

// ---- generator ----

type Options struct {
	MaxBlocks   int
	AllowAllOf  bool // allOf only on one level (bases without allOf of their own) unless DeepAllOf
	DeepAllOf   bool
	NoRegexRefs bool
	Rich        bool // bias towards the shapes named in C04
}

type genState struct {
	r       *xrand.Rand
	opt     Options
	types   []*Block // created so far (may be referenced by later ones)
	enums   []*Block
	tags    []*Block
	uniq    int
	prefixD map[string]bool // path prefixes that already have a Path declaration
	extra   []*Block        // user types made on the way (bases and bodies of Path directives)
	paths   map[string]bool // URL paths used
	inter   map[string]bool // verb+path used
}

func (g *genState) id() int { g.uniq++; return g.uniq }

var words = []string{"alpha", "beta", "gamma", "delta", "omega", "cat", "dog", "fox", "red", "blue"}

func (g *genState) word() string { return words[g.r.Intn(len(words))] }

var specials = []string{"(beta)", "{next}", "(v2", "v2)", "[draft]", "a/b", "'single'", "x,y", "a:b", "{", "(", ")", "}", "regex", "GET", "200", "@at", "{}", "()", "//"[:1] + "x", "any", "Method", "*", "-", "1.0-rc(1)"}

// special: a parameter value that needs no quotes although it begins with or consists of punctuation or keywords
func (g *genState) special() string { return specials[g.r.Intn(len(specials))] }

func (g *genState) annotation() string {
	if g.r.Chance(1, 2) {
		return ""
	}
	n := g.r.Range(1, 3)
	var p []string
	for i := 0; i < n; i++ {
		p = append(p, g.word())
	}
	if g.r.Chance(1, 6) {
		// blanks that are content, not separators: no-break space, ideographic space, narrow no-break space
		return strings.Join(p, []string{"\u00a0", "\u3000", "\u202f", " \u00a0 ", "\u2003"}[g.r.Intn(5)])
	}
	return strings.Join(p, " ")
}

func (g *genState) description() []string {
	n := g.r.Range(1, 3)
	var out []string
	for i := 0; i < n; i++ {
		out = append(out, "about "+g.word()+" "+g.word())
	}
	return out
}

// objectTypes returns the created jsight object types (allOf bases, headers refs).
func (g *genState) objectTypes(noAllOf bool) []*Block {
	var out []*Block
	for _, t := range g.types {
		if t.Notation == "jsight" && t.Schema.Kind == "object" && len(t.Schema.Props) > 0 {
			if noAllOf && hasAllOf(t.Schema) {
				continue
			}
			out = append(out, t)
		}
	}
	return out
}

func hasAllOf(n *SNode) bool {
	if n == nil {
		return false
	}
	if len(n.AllOf) > 0 {
		return true
	}
	for _, p := range n.Props {
		if hasAllOf(p.Node) {
			return true
		}
	}
	for _, it := range n.Items {
		if hasAllOf(it) {
			return true
		}
	}
	return false
}

func (g *genState) refTargets() []*Block {
	var out []*Block
	for _, t := range g.types {
		if t.Notation == "jsight" || (t.Notation == "regex" && !g.opt.NoRegexRefs) {
			out = append(out, t)
		}
	}
	return out
}

func (g *genState) scalar() *SNode {
	switch g.r.Intn(6) {
	case 0:
		return &SNode{Kind: "int", Val: fmt.Sprint(g.r.Range(0, 99))}
	case 1:
		return &SNode{Kind: "float", Val: fmt.Sprintf("%d.%d", g.r.Range(0, 9), g.r.Range(1, 9))}
	case 2:
		return &SNode{Kind: "bool", Val: []string{"true", "false"}[g.r.Intn(2)]}
	case 3:
		return &SNode{Kind: "null", Val: "null"}
	default:
		return &SNode{Kind: "string", Val: g.word()}
	}
}

func (g *genState) schemaNode(depth int, keyPrefix string) *SNode {
	n := g.schemaNodeRaw(depth, keyPrefix)
	n.Optional = false // only object properties may be optional: object() decides
	return n
}

func (g *genState) schemaNodeRaw(depth int, keyPrefix string) *SNode {
	roll := g.r.Intn(10)
	refs := g.refTargets()
	switch {
	case roll < 4 || depth >= 2:
		n := g.scalar()
		g.decorate(n)
		return n
	case roll < 6 && len(refs) > 0:
		t := refs[g.r.Intn(len(refs))]
		n := &SNode{Kind: "ref", Ref: t.Name}
		if g.r.Chance(1, 4) {
			n.Optional = true
		}
		if g.r.Chance(1, 4) {
			n.Note = g.word() + " note"
		}
		return n
	case roll == 6 && len(refs) > 1:
		a, b := refs[g.r.Intn(len(refs))], refs[g.r.Intn(len(refs))]
		if a.Name == b.Name {
			return &SNode{Kind: "ref", Ref: a.Name}
		}
		return &SNode{Kind: "or", Or: []string{a.Name, b.Name}}
	case roll == 7:
		n := &SNode{Kind: "array"}
		k := g.r.Range(0, 2)
		for i := 0; i < k; i++ {
			if len(refs) > 0 && g.r.Bool() {
				n.Items = append(n.Items, &SNode{Kind: "ref", Ref: refs[g.r.Intn(len(refs))].Name})
			} else {
				n.Items = append(n.Items, g.scalar())
			}
		}
		return n
	default:
		return g.object(depth+1, keyPrefix, g.r.Range(0, 3))
	}
}

func (g *genState) decorate(n *SNode) {
	if g.r.Chance(1, 4) {
		n.Optional = true
	}
	if n.Kind == "int" && g.r.Chance(1, 4) {
		v := 0
		fmt.Sscan(n.Val, &v)
		lo, hi := v-g.r.Intn(5), v+g.r.Intn(5)
		if g.r.Bool() {
			n.Min = &lo
		}
		if g.r.Bool() || n.Min == nil {
			n.Max = &hi
		}
	}
	if n.Kind == "string" && len(g.enums) > 0 && g.r.Chance(1, 4) {
		e := g.enums[g.r.Intn(len(g.enums))]
		for _, v := range e.EnumVals {
			if v.Kind == "string" {
				n.Val = v.Val
				n.EnumRef = e.Name
				break
			}
		}
	}
	// an explicit or-rule naming built-in and user types in any order (the value matches the built-in alternative)
	if refs := g.refTargets(); (n.Kind == "int" || n.Kind == "string") && n.Min == nil && n.Max == nil && n.EnumRef == "" && len(refs) > 0 && g.r.Chance(1, 8) {
		builtin := map[string]string{"int": "integer", "string": "string"}[n.Kind]
		a := refs[g.r.Intn(len(refs))].Name
		switch g.r.Intn(4) {
		case 0:
			n.OrAlts = []string{builtin, a}
		case 1:
			n.OrAlts = []string{a, builtin}
		case 2:
			n.OrAlts = []string{builtin, a, refs[g.r.Intn(len(refs))].Name}
		default:
			n.OrAlts = []string{"boolean", builtin, a}
		}
		if len(n.OrAlts) == 3 && n.OrAlts[1] == n.OrAlts[2] {
			n.OrAlts = n.OrAlts[:2]
		}
	}
	if g.r.Chance(1, 4) {
		n.Note = g.word() + []string{" ", " ", " ", "\u00a0"}[g.r.Intn(4)] + "note"
	}
}

func (g *genState) object(depth int, keyPrefix string, nprops int) *SNode {
	n := &SNode{Kind: "object"}
	for i := 0; i < nprops; i++ {
		pn := g.schemaNodeRaw(depth, keyPrefix)
		if pn.Kind == "object" || pn.Kind == "array" || pn.Kind == "or" {
			pn.Optional = g.r.Chance(1, 5)
		}
		n.Props = append(n.Props, &SProp{Key: fmt.Sprintf("%sk%d", keyPrefix, g.id()), Node: pn})
	}
	// a property whose key is a reference to a string type (@t : value), with a scalar, object or array value; only in
	// nested objects, which are never bases of an allOf rule (two bases with one key reference are a duplicate key)
	if depth >= 1 && g.r.Chance(1, 8) {
		for _, t := range g.types {
			if t.Notation == "jsight" && t.Schema != nil && t.Schema.Kind == "string" && len(t.Schema.OrAlts) == 0 && t.Schema.EnumRef == "" {
				var v *SNode
				switch g.r.Intn(3) {
				case 0:
					v = &SNode{Kind: "int", Val: fmt.Sprint(g.r.Range(0, 99))}
				case 1:
					v = &SNode{Kind: "object", Props: []*SProp{{Key: fmt.Sprintf("%sk%d", keyPrefix, g.id()), Node: &SNode{Kind: "bool", Val: "true"}}}}
				default:
					v = &SNode{Kind: "array", Items: []*SNode{{Kind: "string", Val: g.word()}}}
				}
				n.Props = append(n.Props, &SProp{Key: t.Name, KeyRef: true, Node: v})
				break
			}
		}
	}
	if g.opt.AllowAllOf && depth <= 1 && g.r.Chance(1, 4) {
		bases := g.objectTypes(!g.opt.DeepAllOf)
		if len(bases) > 0 {
			k := g.r.Range(1, 2)
			seen := map[string]bool{}
			for i := 0; i < k; i++ {
				b := bases[g.r.Intn(len(bases))]
				if !seen[b.Name] {
					seen[b.Name] = true
					n.AllOf = append(n.AllOf, b.Name)
				}
			}
		}
	}
	return n
}

func (g *genState) body(allowChild bool) Body {
	refs := g.refTargets()
	var b Body
	switch r := g.r.Intn(10); {
	case r < 3 && len(refs) > 0:
		b = Body{Form: "ref", Ref: refs[g.r.Intn(len(refs))].Name}
	case r < 4 && len(refs) > 0:
		b = Body{Form: "refarray", Ref: refs[g.r.Intn(len(refs))].Name}
	case r < 7:
		b = Body{Form: "schema", Schema: g.schemaNode(0, "")}
	case r < 8:
		b = Body{Form: "regex", Regex: g.regex()}
	case r < 9:
		b = Body{Form: "any"}
	default:
		b = Body{Form: "empty"}
	}
	if allowChild && g.r.Chance(1, 3) {
		b.AsChild = true
	}
	return b
}

func (g *genState) regex() string {
	return []string{"ab+", "x[0-9]{2}", "(cat|dog)s?", "a\\/b", "[a-z]+@[a-z]+", "ok"}[g.r.Intn(6)]
}

func (g *genState) headers() *SNode {
	objs := g.objectTypes(false)
	if len(objs) > 0 && g.r.Chance(1, 4) {
		return &SNode{Kind: "ref", Ref: objs[g.r.Intn(len(objs))].Name}
	}
	n := &SNode{Kind: "object"}
	k := g.r.Range(1, 2)
	for i := 0; i < k; i++ {
		n.Props = append(n.Props, &SProp{Key: fmt.Sprintf("X-H%d", g.id()), Node: &SNode{Kind: "string", Val: g.word()}})
	}
	if g.opt.AllowAllOf && g.r.Chance(1, 3) { // headers that inherit some of their fields
		if bases := g.objectTypes(!g.opt.DeepAllOf); len(bases) > 0 {
			n.AllOf = []string{bases[g.r.Intn(len(bases))].Name}
		}
	}
	return n
}

func (g *genState) pickTags() []string {
	if len(g.tags) == 0 || !g.r.Chance(1, 3) {
		return nil
	}
	if len(g.tags) >= 4 && g.r.Chance(1, 2) { // many tags on one interaction
		var out []string
		for _, i := range g.r.Perm(len(g.tags)) {
			out = append(out, g.tags[i].Name)
		}
		return out
	}
	k := g.r.Range(1, 2)
	var out []string
	for i := 0; i < k; i++ {
		t := g.tags[g.r.Intn(len(g.tags))].Name
		if len(out) == 0 || out[0] != t {
			out = append(out, t)
		}
	}
	return out
}

// pathParams returns (prefix, name) for every {name} of the path.
func PathParams(path string) (prefixes, names []string) {
	var segs []string
	for _, s := range strings.Split(strings.Trim(path, "/"), "/") {
		if s != "" {
			segs = append(segs, s)
		}
	}
	for i, s := range segs {
		if len(s) >= 2 && s[0] == '{' && s[len(s)-1] == '}' {
			prefixes = append(prefixes, strings.Join(segs[:i+1], "/"))
			names = append(names, s[1:len(s)-1])
		}
	}
	return
}

// pathDecl declares (some of) the not yet declared parameters of a path.
func (g *genState) pathDecl(path string) *SNode {
	prefixes, names := PathParams(path)
	var props []*SProp
	for i := range names {
		if g.prefixD[prefixes[i]] {
			continue
		}
		if !g.r.Chance(2, 3) {
			continue
		}
		g.prefixD[prefixes[i]] = true
		var n *SNode
		switch g.r.Intn(4) {
		case 0:
			n = &SNode{Kind: "string", Val: g.word()}
		case 1:
			// a reference to a scalar-rooted or regex type
			var cands []*Block
			for _, t := range g.types {
				if t.Notation == "regex" || (t.Notation == "jsight" && (t.Schema.Kind == "int" || t.Schema.Kind == "string")) {
					cands = append(cands, t)
				}
			}
			if len(cands) > 0 {
				n = &SNode{Kind: "ref", Ref: cands[g.r.Intn(len(cands))].Name}
			} else {
				n = &SNode{Kind: "int", Val: "7"}
			}
		default:
			n = &SNode{Kind: "int", Val: fmt.Sprint(g.r.Range(1, 500))}
			if g.r.Chance(1, 3) {
				lo := 1
				n.Min = &lo
			}
		}
		if g.r.Chance(1, 4) {
			n.Note = g.word() + " id"
		}
		props = append(props, &SProp{Key: names[i], Node: n})
	}
	if len(props) == 0 {
		return nil
	}
	decl := &SNode{Kind: "object", Props: props}
	if g.opt.AllowAllOf && g.r.Chance(1, 3) {
		var extra []*Block
		decl, extra = SplitPathDecl(decl, g.r.Range(1, 2), g.r.Range(1, len(props)), fmt.Sprintf("@t%d", g.id()))
		g.extra = append(g.extra, extra...)
	}
	return decl
}

var verbs = []string{"GET", "POST", "PUT", "PATCH", "DELETE"}

// newPath builds a fresh path; parameters are named after their depth so that "similar paths" never arise.
func (g *genState) newPath() string {
	for try := 0; try < 50; try++ {
		n := g.r.Range(1, 4)
		var segs []string
		for i := 0; i < n; i++ {
			if i > 0 && g.r.Chance(1, 3) {
				segs = append(segs, fmt.Sprintf("{p%d}", i))
			} else {
				if i > 0 && g.r.Chance(1, 8) {
					// characters that mean something to printf, URLs or escaping (never in the first segment: the tag name)
					segs = append(segs, []string{"my%20report", "100%", "a-b", "x.y", "%s", "q~1"}[g.r.Intn(6)])
					continue
				}
				segs = append(segs, []string{"cats", "dogs", "users", "tasks", "v1", "items"}[g.r.Intn(6)])
			}
		}
		p := "/" + strings.Join(segs, "/")
		if !g.paths[p] {
			return p
		}
	}
	return fmt.Sprintf("/u%d", g.id())
}

func (g *genState) method(verb, path string, ownPath bool) *Method {
	m := &Method{Verb: verb, Path: path, OwnPath: ownPath}
	m.Annotation = g.annotation()
	if g.r.Chance(1, 3) {
		m.Description = g.description()
		m.DescFirst = g.r.Bool()
	}
	m.Tags = g.pickTags()
	if g.r.Chance(1, 4) {
		q := &Query{Schema: g.object(1, "q", g.r.Range(1, 2))}
		q.Schema.AllOf = nil
		if g.r.Bool() {
			q.Example = "a=" + g.word()
		}
		q.Format = []string{"", "htmlFormEncoded", "noFormat"}[g.r.Intn(3)]
		m.Query = q
	}
	if g.r.Chance(1, 3) {
		m.PathDecl = g.pathDecl(path)
	}
	if verb != "GET" && g.r.Chance(1, 2) {
		rq := &Request{Body: g.body(true)}
		if g.r.Chance(1, 3) {
			rq.Headers = g.headers()
			rq.Body.AsChild = true
		}
		m.Request = rq
	}
	nr := g.r.Range(0, 3)
	if g.opt.Rich {
		nr = g.r.Range(1, 3)
	}
	used := map[string]bool{}
	for i := 0; i < nr; i++ {
		code := []string{"200", "201", "204", "400", "404", "500"}[g.r.Intn(6)]
		if used[code] && g.r.Bool() {
			continue
		}
		used[code] = true
		rs := &Response{Code: code, Annotation: g.annotation(), Body: g.body(true)}
		if g.r.Chance(1, 4) {
			rs.Headers = g.headers()
			rs.Body.AsChild = true
		}
		m.Responses = append(m.Responses, rs)
	}
	return m
}

// Generate builds a random valid model.
func Generate(r *xrand.Rand, opt Options) *Model {
	if opt.MaxBlocks == 0 {
		opt.MaxBlocks = 12
	}
	g := &genState{r: r, opt: opt, prefixD: map[string]bool{}, paths: map[string]bool{}, inter: map[string]bool{}}
	m := &Model{}
	var blocks []*Block
	if r.Chance(1, 2) {
		b := &Block{Kind: "info"}
		switch r.Intn(4) {
		case 3:
			// values that need no quotes although they look like punctuation of the language
			b.Title, b.Version = g.special(), g.special()
		case 0:
			b.Title = "The " + g.word() + " API"
		case 1:
			b.Title, b.Version = g.word()+" api", fmt.Sprintf("%d.%d", r.Range(0, 3), r.Range(0, 9))
		default:
			b.Title, b.Version, b.Description = g.word(), "1.0", g.description()
		}
		blocks = append(blocks, b)
	}
	ns := r.Intn(3)
	for i := 0; i < ns; i++ {
		blocks = append(blocks, &Block{Kind: "server", Name: fmt.Sprintf("@s%d", g.id()), Annotation: g.annotation(), BaseURL: "https://" + g.word() + ".example/" + g.word()})
	}
	ne := r.Intn(3)
	for i := 0; i < ne; i++ {
		e := &Block{Kind: "enum", Name: fmt.Sprintf("@e%d", g.id()), Annotation: g.annotation()}
		k := r.Range(1, 4)
		for j := 0; j < k; j++ {
			v := EnumVal{Kind: "string", Val: fmt.Sprintf("%s%d", g.word(), j)}
			if j > 0 && r.Chance(1, 3) {
				v = []EnumVal{{Kind: "int", Val: fmt.Sprint(j)}, {Kind: "bool", Val: []string{"true", "false"}[j%2]}, {Kind: "null", Val: "null"}, {Kind: "float", Val: fmt.Sprintf("%d.5", j)}}[r.Intn(4)]
				dup := false
				for _, x := range e.EnumVals {
					if x.Val == v.Val {
						dup = true
					}
				}
				if dup {
					v = EnumVal{Kind: "string", Val: fmt.Sprintf("%s%d", g.word(), j)}
				}
			}
			if r.Chance(1, 4) {
				v.Note = g.word() + " value"
			}
			e.EnumVals = append(e.EnumVals, v)
		}
		g.enums = append(g.enums, e)
		blocks = append(blocks, e)
	}
	nt := r.Range(0, 5)
	for i := 0; i < nt; i++ {
		t := &Block{Kind: "type", Name: fmt.Sprintf("@t%d", g.id()), Annotation: g.annotation()}
		switch roll := r.Intn(10); {
		case roll < 6:
			t.Notation = "jsight"
			t.Schema = g.object(0, fmt.Sprintf("t%d", g.uniq), r.Range(1, 4))
		case roll < 7:
			t.Notation = "jsight"
			t.Schema = g.scalar()
			if t.Schema.Kind == "null" || t.Schema.Kind == "bool" || t.Schema.Kind == "float" {
				t.Schema = &SNode{Kind: "int", Val: "5"}
			}
		case roll < 8:
			t.Notation = "jsight"
			t.Schema = &SNode{Kind: "array", Items: []*SNode{g.scalar()}}
		case roll < 9:
			t.Notation = "regex"
			t.Regex = g.regex()
		default:
			t.Notation = []string{"any", "empty"}[r.Intn(2)]
		}
		g.types = append(g.types, t)
		blocks = append(blocks, t)
	}
	ng := r.Intn(3)
	if r.Chance(1, 6) {
		ng = r.Range(4, 5)
	}
	for i := 0; i < ng; i++ {
		tg := &Block{Kind: "tag", Name: fmt.Sprintf("@G%d", g.id()), Annotation: g.annotation()}
		if r.Chance(1, 3) {
			tg.Description = g.description()
		}
		g.tags = append(g.tags, tg)
		blocks = append(blocks, tg)
	}
	ni := r.Range(1, 5)
	for i := 0; i < ni && len(blocks) < opt.MaxBlocks; i++ {
		switch roll := r.Intn(10); {
		case roll < 5: // URL block
			p := g.newPath()
			g.paths[p] = true
			b := &Block{Kind: "url", Path: p, Tags: g.pickTags()}
			if r.Chance(1, 8) && strings.Contains(p, "{") {
				// a URL block without methods of its own: it only says what the path parameters are, for methods that are
				// written on their own with longer paths
				if b.PathDecl = g.pathDecl(p); b.PathDecl != nil {
					blocks = append(blocks, b)
					p2 := p + "/" + g.word()
					v := verbs[r.Intn(5)]
					g.inter[v+" "+p2] = true
					g.paths[p2] = true
					blocks = append(blocks, &Block{Kind: "method", Method: g.method(v, p2, true)})
					continue
				}
			}
			if r.Chance(1, 3) {
				b.PathDecl = g.pathDecl(p)
			}
			nm := r.Range(1, 3)
			perm := r.Perm(5)
			for k := 0; k < nm; k++ {
				v := verbs[perm[k]]
				if g.inter[v+" "+p] {
					continue
				}
				g.inter[v+" "+p] = true
				b.Methods = append(b.Methods, g.method(v, p, false))
			}
			if len(b.Methods) == 0 {
				continue
			}
			blocks = append(blocks, b)
		case roll < 7: // JSON-RPC block
			p := g.newPath()
			g.paths[p] = true
			b := &Block{Kind: "rpcurl", Path: p, Tags: g.pickTags()}
			nm := r.Range(1, 3)
			for k := 0; k < nm; k++ {
				nmw := g.word()
				if r.Chance(1, 4) {
					nmw = g.special()
				}
				rm := &RPCMethod{Name: fmt.Sprintf("%s%d", nmw, g.id()), Annotation: g.annotation(), Tags: g.pickTags()}
				if r.Chance(1, 3) {
					rm.Description = g.description()
				}
				if r.Chance(2, 3) {
					rm.Params = g.schemaNode(0, "")
				}
				if r.Chance(1, 2) {
					rm.Result = g.schemaNode(0, "")
				}
				b.RPC = append(b.RPC, rm)
			}
			if r.Chance(1, 3) {
				b.ProtoAfter = r.Range(1, len(b.RPC))
			}
			blocks = append(blocks, b)
		default: // stand-alone method
			p := g.newPath()
			v := verbs[r.Intn(5)]
			if g.inter[v+" "+p] {
				continue
			}
			g.inter[v+" "+p] = true
			g.paths[p] = true // keep URL paths and stand-alone paths apart
			blocks = append(blocks, &Block{Kind: "method", Method: g.method(v, p, true)})
		}
	}
	blocks = append(blocks, g.extra...)
	// declaration order: keep info first half of the time, shuffle the rest (names may be used before they are written)
	perm := r.Perm(len(blocks))
	for _, i := range perm {
		m.Blocks = append(m.Blocks, blocks[i])
	}
	return m
}

// SplitPathDecl rewrites the body of a Path directive (an object of scalar properties) into one of the other forms the
// language has for it, with the user types that form needs: a reference to an object type that holds the properties
// ("Path / @type"), or an object that inherits some (or all) of them from a base type (allOf). form: 0 as is, 1 reference,
// 2 allOf with the first k properties in the base.
func SplitPathDecl(decl *SNode, form int, k int, typeName string) (*SNode, []*Block) {
	if decl == nil || decl.Kind != "object" || len(decl.Props) == 0 {
		return decl, nil
	}
	switch form {
	case 1:
		t := &Block{Kind: "type", Name: typeName, Notation: "jsight", Schema: &SNode{Kind: "object", Props: decl.Props}}
		return &SNode{Kind: "ref", Ref: typeName}, []*Block{t}
	case 2:
		if k < 1 {
			k = 1
		}
		if k > len(decl.Props) {
			k = len(decl.Props)
		}
		t := &Block{Kind: "type", Name: typeName, Notation: "jsight", Schema: &SNode{Kind: "object", Props: decl.Props[:k:k]}}
		return &SNode{Kind: "object", AllOf: []string{typeName}, Props: decl.Props[k:]}, []*Block{t}
	}
	return decl, nil
}

// TypeByName finds a type block.
func (m *Model) TypeByName(name string) *Block {
	for _, b := range m.Blocks {
		if b.Kind == "type" && b.Name == name {
			return b
		}
	}
	return nil
}

func (m *Model) EnumByName(name string) *Block {
	for _, b := range m.Blocks {
		if b.Kind == "enum" && b.Name == name {
			return b
		}
	}
	return nil
}
