package gen

import (
	"fmt"
	"strings"

	"verifharness/internal/xrand"
)

// Style decides the surface syntax. The zero value is the canonical style.
type Style struct {
	R *xrand.Rand // nil: canonical, no randomness

	IndentUnit   string // per level; "" with RandomIndent means anything
	RandomIndent bool   // every directive line gets its own indentation
	Newline      string // "\n", "\r\n", "\r"
	Comments     int    // 0 none, else 1/Comments chance of a comment/blank line between directives and at line ends
	TrailingWS   bool
	Parens       int  // 0 none, else 1/Parens chance to parenthesise a directive's complete child run
	QuoteParams  int  // 0 never, else 1/QuoteParams chance to quote a parameter that needs no quotes
	ParenDesc    int  // 1/ParenDesc chance to write a description in parentheses
	BlockAnnot   int  // 1/BlockAnnot chance to write an annotation as /* */
	BodyBorders  int  // 1/BodyBorders chance to put a multi-line body inside body borders ( … )
	SchemaInline bool // compact one-line schemas where possible

	// Script, if set, answers every rewriting decision by its index (single-rewriting enumeration);
	// Variant selects the flavour of the rewriting (which comment, which indentation…).
	Script  func(i int) bool
	Variant int
	ni      int
}

// ScriptedStyle consults script at every eligible position.
func ScriptedStyle(script func(i int) bool, variant int) *Style {
	return &Style{Script: script, Variant: variant, IndentUnit: "  ", Newline: "\n", Comments: 1, TrailingWS: true,
		Parens: 1, QuoteParams: 1, ParenDesc: 1, BlockAnnot: 1, BodyBorders: 1, RandomIndent: true}
}

// Decisions returns how many decisions the last rendering consulted.
func (s *Style) Decisions() int { return s.ni }

func (s *Style) pick(n int) int {
	if s == nil || n <= 0 {
		return 0
	}
	if s.R == nil {
		return s.Variant % n
	}
	return s.R.Intn(n)
}

func RandomStyle(r *xrand.Rand) *Style {
	s := &Style{R: r}
	s.IndentUnit = []string{"  ", "    ", "\t", " ", ""}[r.Intn(5)]
	s.RandomIndent = r.Chance(1, 4)
	s.Newline = []string{"\n", "\n", "\r\n", "\r"}[r.Intn(4)]
	s.Comments = []int{0, 0, 6, 3, 2}[r.Intn(5)]
	s.TrailingWS = r.Chance(1, 3)
	s.Parens = []int{0, 0, 4, 2, 1}[r.Intn(5)]
	s.QuoteParams = []int{0, 3, 1}[r.Intn(3)]
	s.ParenDesc = []int{0, 2, 1}[r.Intn(3)]
	s.BlockAnnot = []int{0, 2, 1}[r.Intn(3)]
	s.BodyBorders = []int{0, 0, 3}[r.Intn(3)]
	return s
}

func (s *Style) chance(den int) bool {
	if s == nil || den <= 0 {
		return false
	}
	if s.Script != nil {
		s.ni++
		return s.Script(s.ni - 1)
	}
	if s.R == nil {
		return false
	}
	return s.R.Intn(den) == 0
}

// Span locates one directive in the rendered text.
type Span struct {
	Label   string // e.g. "type:@t3", "method:GET /a", "response:GET /a#1", "url:/a"
	Kind    string // directive keyword
	Begin   int    // keyword offset
	End     int    // end (exclusive) of the directive's own lines (parameters, annotation, body)
	FullEnd int    // end (exclusive) including children
	Depth   int
}

type Rendered struct {
	Text  string
	Spans []Span
}

type renderer struct {
	sb    strings.Builder
	st    *Style
	spans []Span
	// afterText is true when the previous thing was free text (description): no comment/blank may follow directly
	afterText bool
}

func (rd *renderer) indent(level int) string {
	st := rd.st
	if st == nil {
		return strings.Repeat("  ", level)
	}
	if st.Script != nil {
		if st.chance(1) {
			return strings.Repeat([]string{" ", "\t", "   "}[st.pick(3)], (st.Variant/3)%4)
		}
		return strings.Repeat(st.IndentUnit, level)
	}
	if st.RandomIndent && st.R != nil {
		return strings.Repeat([]string{" ", "\t", "  "}[st.R.Intn(3)], st.R.Intn(5))
	}
	return strings.Repeat(st.IndentUnit, level)
}

func (rd *renderer) nl() string { return "\n" } // converted at the end

// filler emits optional comments / blank lines between complete directives.
func (rd *renderer) filler(level int) {
	st := rd.st
	if st == nil || st.Comments == 0 || rd.afterText || (st.R == nil && st.Script == nil) {
		return
	}
	for st.chance(st.Comments) {
		switch st.pick(4) {
		case 0:
			rd.sb.WriteString("\n")
		case 1:
			rd.sb.WriteString(strings.Repeat(" ", level) + "# a comment\n")
		case 2:
			rd.sb.WriteString(strings.Repeat(" ", level) + "### block\n comment ###\n")
		default:
			rd.sb.WriteString("   \t\n")
		}
		if st.Script != nil || st.pick(2) == 0 {
			break
		}
	}
}

func (rd *renderer) eol(allowComment bool) {
	st := rd.st
	if st != nil && st.TrailingWS && st.chance(2) {
		rd.sb.WriteString([]string{" ", "  ", "\t", " \t", "\t "}[st.pick(5)])
	}
	_ = allowComment // comments at the end of directive lines are not among the rewritings of C05: never emitted
	rd.sb.WriteString("\n")
}

func needsQuotes(p string) bool {
	if p == "" {
		return true
	}
	if strings.ContainsAny(p, " \t#\"\\") {
		return true
	}
	return strings.HasPrefix(p, "//") || strings.HasPrefix(p, "/*")
}

func quote(p string) string {
	p = strings.ReplaceAll(p, "\\", "\\\\")
	return "\"" + strings.ReplaceAll(p, "\"", "\\\"") + "\""
}

func (rd *renderer) param(p string) string {
	if needsQuotes(p) {
		return quote(p)
	}
	if rd.st != nil && rd.st.QuoteParams > 0 && rd.st.chance(rd.st.QuoteParams) {
		return quote(p)
	}
	return p
}

func (rd *renderer) annot(a string) string {
	if a == "" {
		return ""
	}
	if rd.st != nil && rd.st.chance(rd.st.BlockAnnot) {
		return rd.sep() + "/* " + a + " */"
	}
	return rd.sep() + "// " + a
}

// directive writes "<indent><keyword> <params><annotation>" and returns the keyword offset.
func (rd *renderer) directive(level int, keyword string, params []string, annotation string) int {
	rd.filler(level)
	rd.sb.WriteString(rd.indent(level))
	begin := rd.sb.Len()
	rd.sb.WriteString(keyword)
	for _, p := range params {
		rd.sb.WriteString(rd.sep() + p)
	}
	rd.sb.WriteString(rd.annot(annotation))
	rd.eol(annotation == "" || true)
	rd.afterText = false
	return begin
}

// sep is the blank run between a keyword and a parameter or between parameters.
func (rd *renderer) sep() string {
	st := rd.st
	if st != nil && st.TrailingWS && st.chance(3) {
		return []string{"  ", "\t", " \t", "\t ", "   "}[st.pick(5)]
	}
	return " "
}

func (rd *renderer) open(level int) {
	rd.sb.WriteString(rd.indent(level) + "(")
	rd.eol(true)
}

func (rd *renderer) close(level int) {
	rd.filler(level)
	rd.sb.WriteString(rd.indent(level) + ")")
	rd.eol(true)
	rd.afterText = false
}

func (rd *renderer) span(label, kind string, begin, end, depth int) int {
	rd.spans = append(rd.spans, Span{Label: label, Kind: kind, Begin: begin, End: end, FullEnd: end, Depth: depth})
	return len(rd.spans) - 1
}

func (rd *renderer) finish(i int) { rd.spans[i].FullEnd = rd.sb.Len() }

// ---- schema text ----

func ruleText(n *SNode) string {
	var rr []string
	if n.Min != nil {
		rr = append(rr, fmt.Sprintf("min: %d", *n.Min))
	}
	if n.Max != nil {
		rr = append(rr, fmt.Sprintf("max: %d", *n.Max))
	}
	if n.EnumRef != "" {
		rr = append(rr, "enum: "+n.EnumRef)
	}
	if len(n.AllOf) == 1 {
		rr = append(rr, "allOf: \""+n.AllOf[0]+"\"")
	} else if len(n.AllOf) > 1 {
		var q []string
		for _, a := range n.AllOf {
			q = append(q, "\""+a+"\"")
		}
		rr = append(rr, "allOf: ["+strings.Join(q, ", ")+"]")
	}
	if n.Optional {
		rr = append(rr, "optional: true")
	}
	s := ""
	if len(rr) > 0 {
		s = "{" + strings.Join(rr, ", ") + "}"
	}
	if n.Note != "" {
		if s != "" {
			s += " - " + n.Note
		} else {
			s = n.Note
		}
	}
	if s == "" {
		return ""
	}
	return " // " + s
}

func scalarText(n *SNode) string {
	switch n.Kind {
	case "string":
		return "\"" + n.Val + "\""
	case "ref":
		return n.Ref
	case "or":
		return strings.Join(n.Or, " | ")
	}
	return n.Val
}

// SchemaLines renders a schema as canonical multi-line text (one value per line so that rules are unambiguous).
func SchemaLines(n *SNode, isRoot bool) []string {
	var out []string
	var rec func(n *SNode, prefix string, ind int, comma bool)
	rec = func(n *SNode, prefix string, ind int, comma bool) {
		pad := strings.Repeat("  ", ind)
		c := ""
		if comma {
			c = ","
		}
		switch n.Kind {
		case "object":
			if len(n.Props) == 0 && ruleText(n) == "" {
				out = append(out, pad+prefix+"{}"+c)
				return
			}
			out = append(out, pad+prefix+"{"+ruleText(n))
			for i, p := range n.Props {
				rec(p.Node, "\""+p.Key+"\": ", ind+1, i < len(n.Props)-1)
			}
			out = append(out, pad+"}"+c)
		case "array":
			if len(n.Items) == 0 && ruleText(n) == "" {
				out = append(out, pad+prefix+"[]"+c)
				return
			}
			out = append(out, pad+prefix+"["+ruleText(n))
			for i, it := range n.Items {
				rec(it, "", ind+1, i < len(n.Items)-1)
			}
			out = append(out, pad+"]"+c)
		default:
			out = append(out, pad+prefix+scalarText(n)+c+ruleText(n))
		}
	}
	rec(n, "", 0, false)
	return out
}

// body writes a multi-line body (schema lines or a regex) at the given level.
func (rd *renderer) bodyLines(level int, lines []string) { rd.bodyLinesB(level, lines, true) }

// bodyLinesB: borders close the directive's context, so they are only allowed when no child follows the body.
func (rd *renderer) bodyLinesB(level int, lines []string, allowBorders bool) {
	borders := allowBorders && rd.st != nil && rd.st.chance(rd.st.BodyBorders)
	if borders {
		rd.open(level)
	}
	for _, l := range lines {
		rd.sb.WriteString(rd.indentFixed(level) + l + "\n")
	}
	if borders {
		rd.sb.WriteString(rd.indent(level) + ")")
		rd.eol(true)
	}
	rd.afterText = false
}

// indentFixed: schema bodies keep one indentation per body (their bytes are not directive lines).
func (rd *renderer) indentFixed(level int) string {
	if rd.st == nil {
		return strings.Repeat("  ", level)
	}
	if rd.st.RandomIndent {
		return "  "
	}
	return strings.Repeat(rd.st.IndentUnit, level)
}

func (rd *renderer) description(level int, label string, lines []string, depth int) {
	begin := rd.directive(level, "Description", nil, "")
	paren := rd.st != nil && rd.st.chance(rd.st.ParenDesc)
	pad := rd.indentFixed(level + 1)
	if paren {
		rd.sb.WriteString(rd.indentFixed(level) + "(\n")
	}
	for _, l := range lines {
		rd.sb.WriteString(pad + l + "\n")
	}
	if paren {
		rd.sb.WriteString(rd.indentFixed(level) + ")\n")
		rd.afterText = false
	} else {
		rd.afterText = true
	}
	rd.span(label, "Description", begin, rd.sb.Len(), depth)
}

func bodyParams(b Body) (params []string, lines []string) {
	switch b.Form {
	case "ref":
		return []string{b.Ref}, nil
	case "refarray":
		return []string{"[" + b.Ref + "]"}, nil
	case "schema":
		return nil, SchemaLines(b.Schema, true)
	case "regex":
		return []string{"regex"}, []string{"/" + b.Regex + "/"}
	case "any":
		return []string{"any"}, nil
	default:
		return []string{"empty"}, nil
	}
}

// children decides about explicit parentheses around a complete child run.
func (rd *renderer) withChildren(level int, has bool, f func()) {
	if !has {
		return
	}
	paren := rd.st != nil && rd.st.chance(rd.st.Parens)
	if paren {
		rd.open(level)
	}
	f()
	if paren {
		rd.close(level)
	}
}

func (rd *renderer) bodyHost(level int, label, keyword string, annotation string, headers *SNode, b Body, depth int) {
	var params []string
	var lines []string
	if !b.AsChild {
		params, lines = bodyParams(b)
	}
	begin := rd.directive(level, keyword, params, annotation)
	hasChildren := headers != nil || b.AsChild
	if lines != nil {
		rd.bodyLinesB(level+1, lines, !hasChildren)
	}
	si := rd.span(label, keyword, begin, rd.sb.Len(), depth)
	// explicit parentheses only where the directive has no body of its own
	f := func() {
		if headers != nil {
			hb := rd.directive(level+1, "Headers", nil, "")
			rd.bodyLines(level+2, SchemaLines(headers, true))
			rd.span(label+"/headers", "Headers", hb, rd.sb.Len(), depth+1)
		}
		if b.AsChild {
			p, l := bodyParams(b)
			bb := rd.directive(level+1, "Body", p, "")
			if l != nil {
				rd.bodyLines(level+2, l)
			}
			rd.span(label+"/body", "Body", bb, rd.sb.Len(), depth+1)
		}
	}
	if lines != nil {
		f()
	} else {
		rd.withChildren(level, hasChildren, f)
	}
	rd.finish(si)
}

func (rd *renderer) method(level int, m *Method, depth int) {
	label := "method:" + m.Verb + " " + m.Path
	var params []string
	if m.OwnPath {
		params = []string{rd.param(m.Path)}
	}
	begin := rd.directive(level, m.Verb, params, m.Annotation)
	si := rd.span(label, m.Verb, begin, rd.sb.Len(), depth)
	has := m.Description != nil || m.Tags != nil || m.Query != nil || m.PathDecl != nil || m.Request != nil || len(m.Responses) > 0
	rd.withChildren(level, has, func() {
		if m.Description != nil && m.DescFirst {
			rd.description(level+1, label+"/description", m.Description, depth+1)
		}
		if m.Tags != nil {
			b := rd.directive(level+1, "Tags", m.Tags, "")
			rd.span(label+"/tags", "Tags", b, rd.sb.Len(), depth+1)
		}
		if m.PathDecl != nil {
			b := rd.directive(level+1, "Path", nil, "")
			rd.bodyLines(level+2, SchemaLines(m.PathDecl, true))
			rd.span(label+"/path", "Path", b, rd.sb.Len(), depth+1)
		}
		if m.Query != nil {
			var p []string
			if m.Query.Example != "" {
				p = append(p, rd.param(m.Query.Example))
			}
			if m.Query.Format != "" {
				p = append(p, m.Query.Format)
			}
			b := rd.directive(level+1, "Query", p, "")
			rd.bodyLines(level+2, SchemaLines(m.Query.Schema, true))
			rd.span(label+"/query", "Query", b, rd.sb.Len(), depth+1)
		}
		if m.Description != nil && !m.DescFirst {
			rd.description(level+1, label+"/description", m.Description, depth+1)
		}
		if m.Request != nil {
			rd.bodyHost(level+1, label+"/request", "Request", "", m.Request.Headers, m.Request.Body, depth+1)
		}
		for i, rs := range m.Responses {
			rd.bodyHost(level+1, fmt.Sprintf("%s/response#%d", label, i), rs.Code, rs.Annotation, rs.Headers, rs.Body, depth+1)
		}
	})
	rd.finish(si)
}

func (rd *renderer) block(b *Block) {
	switch b.Kind {
	case "info":
		begin := rd.directive(0, "INFO", nil, "")
		si := rd.span("info", "INFO", begin, rd.sb.Len(), 0)
		rd.withChildren(0, true, func() {
			tb := rd.directive(1, "Title", []string{rd.param(b.Title)}, "")
			rd.span("info/title", "Title", tb, rd.sb.Len(), 1)
			if b.Version != "" {
				vb := rd.directive(1, "Version", []string{rd.param(b.Version)}, "")
				rd.span("info/version", "Version", vb, rd.sb.Len(), 1)
			}
			if b.Description != nil {
				rd.description(1, "info/description", b.Description, 1)
			}
		})
		rd.finish(si)
	case "server":
		begin := rd.directive(0, "SERVER", []string{b.Name}, b.Annotation)
		si := rd.span("server:"+b.Name, "SERVER", begin, rd.sb.Len(), 0)
		rd.withChildren(0, true, func() {
			bb := rd.directive(1, "BaseUrl", []string{rd.param(b.BaseURL)}, "")
			rd.span("server:"+b.Name+"/baseurl", "BaseUrl", bb, rd.sb.Len(), 1)
		})
		rd.finish(si)
	case "type":
		params := []string{b.Name}
		var lines []string
		switch b.Notation {
		case "jsight":
			lines = SchemaLines(b.Schema, true)
		case "regex":
			params = append(params, "regex")
			lines = []string{"/" + b.Regex + "/"}
		default:
			params = append(params, b.Notation)
		}
		begin := rd.directive(0, "TYPE", params, b.Annotation)
		if lines != nil {
			rd.bodyLines(1, lines)
		}
		rd.span("type:"+b.Name, "TYPE", begin, rd.sb.Len(), 0)
	case "enum":
		begin := rd.directive(0, "ENUM", []string{b.Name}, b.Annotation)
		var lines []string
		lines = append(lines, "[")
		for i, v := range b.EnumVals {
			t := v.Val
			if v.Kind == "string" {
				t = "\"" + v.Val + "\""
			}
			if i < len(b.EnumVals)-1 {
				t += ","
			}
			if v.Note != "" {
				t += " // " + v.Note
			}
			lines = append(lines, "  "+t)
		}
		lines = append(lines, "]")
		rd.bodyLines(1, lines)
		rd.span("enum:"+b.Name, "ENUM", begin, rd.sb.Len(), 0)
	case "tag":
		begin := rd.directive(0, "TAG", []string{b.Name}, b.Annotation)
		si := rd.span("tag:"+b.Name, "TAG", begin, rd.sb.Len(), 0)
		rd.withChildren(0, b.Description != nil, func() {
			rd.description(1, "tag:"+b.Name+"/description", b.Description, 1)
		})
		rd.finish(si)
	case "url":
		begin := rd.directive(0, "URL", []string{rd.param(b.Path)}, "")
		si := rd.span("url:"+b.Path, "URL", begin, rd.sb.Len(), 0)
		rd.withChildren(0, true, func() {
			if b.Tags != nil {
				tb := rd.directive(1, "Tags", b.Tags, "")
				rd.span("url:"+b.Path+"/tags", "Tags", tb, rd.sb.Len(), 1)
			}
			if b.PathDecl != nil {
				pb := rd.directive(1, "Path", nil, "")
				rd.bodyLines(2, SchemaLines(b.PathDecl, true))
				rd.span("url:"+b.Path+"/path", "Path", pb, rd.sb.Len(), 1)
			}
			for _, m := range b.Methods {
				rd.method(1, m, 1)
			}
		})
		rd.finish(si)
	case "rpcurl":
		begin := rd.directive(0, "URL", []string{rd.param(b.Path)}, "")
		si := rd.span("url:"+b.Path, "URL", begin, rd.sb.Len(), 0)
		rd.withChildren(0, true, func() {
			pb := rd.directive(1, "Protocol", []string{"json-rpc-2.0"}, "")
			rd.span("url:"+b.Path+"/protocol", "Protocol", pb, rd.sb.Len(), 1)
			if b.Tags != nil {
				tb := rd.directive(1, "Tags", b.Tags, "")
				rd.span("url:"+b.Path+"/tags", "Tags", tb, rd.sb.Len(), 1)
			}
			for _, m := range b.RPC {
				label := "rpc:" + m.Name + " " + b.Path
				mb := rd.directive(1, "Method", []string{rd.param(m.Name)}, m.Annotation)
				mi := rd.span(label, "Method", mb, rd.sb.Len(), 1)
				has := m.Description != nil || m.Tags != nil || m.Params != nil || m.Result != nil
				rd.withChildren(1, has, func() {
					if m.Tags != nil {
						tb := rd.directive(2, "Tags", m.Tags, "")
						rd.span(label+"/tags", "Tags", tb, rd.sb.Len(), 2)
					}
					if m.Description != nil {
						rd.description(2, label+"/description", m.Description, 2)
					}
					if m.Params != nil {
						b2 := rd.directive(2, "Params", nil, "")
						rd.bodyLines(3, SchemaLines(m.Params, true))
						rd.span(label+"/params", "Params", b2, rd.sb.Len(), 2)
					}
					if m.Result != nil {
						b2 := rd.directive(2, "Result", nil, "")
						rd.bodyLines(3, SchemaLines(m.Result, true))
						rd.span(label+"/result", "Result", b2, rd.sb.Len(), 2)
					}
				})
				rd.finish(mi)
			}
		})
		rd.finish(si)
	case "method":
		rd.method(0, b.Method, 0)
	case "macro":
		begin := rd.directive(0, "MACRO", []string{b.Name}, "")
		si := rd.span("macro:"+b.Name, "MACRO", begin, rd.sb.Len(), 0)
		rd.open(0)
		for _, c := range b.MacroBody {
			rd.block(c)
		}
		rd.close(0)
		rd.finish(si)
	case "paste":
		begin := rd.directive(0, "PASTE", []string{b.Name}, "")
		rd.span("paste:"+b.Name, "PASTE", begin, rd.sb.Len(), 0)
	}
}

// Render turns the model into text. With a nil style the canonical form is produced.
func Render(m *Model, st *Style) *Rendered {
	rd := &renderer{st: st}
	rd.sb.WriteString("JSIGHT 0.3\n")
	for _, b := range m.Blocks {
		rd.block(b)
	}
	text := rd.sb.String()
	if st != nil && st.Newline != "" && st.Newline != "\n" {
		// offsets in Spans refer to the LF text; callers that need spans render with LF
		text = strings.ReplaceAll(text, "\n", st.Newline)
	}
	return &Rendered{Text: text, Spans: rd.spans}
}

// RenderBlocks renders a list of blocks without the JSIGHT line (included files, fragments).
func RenderBlocks(blocks []*Block, st *Style) string {
	rd := &renderer{st: st}
	for _, b := range blocks {
		rd.block(b)
	}
	return rd.sb.String()
}
