package gen

import (
	"fmt"
	"strings"

	"verifharness/internal/xrand"
)

// Style decides the surface syntax. The zero value is the canonical style.
type Style struct {
	R *xrand.Rand // nil: canonical, no randomness

	IndentUnit   string // per level; "" with RandomIndent means anything
	RandomIndent bool   // every directive line gets its own indentation
	Newline      string // "\n", "\r\n", "\r"
	Comments     int    // 0 none, else 1/Comments chance of a comment/blank line between directives and at line ends
	TrailingWS   bool
	Parens       int  // 0 none, else 1/Parens chance to parenthesise a directive's complete child run
	QuoteParams  int  // 0 never, else 1/QuoteParams chance to quote a parameter that needs no quotes
	ParenDesc    int  // 1/ParenDesc chance to write a description in parentheses
	BlockAnnot   int  // 1/BlockAnnot chance to write an annotation as /* */
	BodyBorders  int  // 1/BodyBorders chance to put a multi-line body inside body borders ( … )
	SchemaInline bool // compact one-line schemas where possible

	// Script, if set, answers every rewriting decision by its index (single-rewriting enumeration);
	// Variant selects the flavour of the rewriting (which comment, which indentation…).
	Script  func(i int) bool
	Variant int
	ni      int
}

// ScriptedStyle consults script at every eligible position.
func ScriptedStyle(script func(i int) bool, variant int) *Style {
	return &Style{Script: script, Variant: variant, IndentUnit: "  ", Newline: "\n", Comments: 1, TrailingWS: true,
		Parens: 1, QuoteParams: 1, ParenDesc: 1, BlockAnnot: 1, BodyBorders: 1, RandomIndent: true}
}

// Decisions returns how many decisions the last rendering consulted.
func (s *Style) Decisions() int { return s.ni }

func (s *Style) pick(n int) int {
	if s == nil || n <= 0 {
		return 0
	}
	if s.R == nil {
		return s.Variant % n
	}
	return s.R.Intn(n)
}

func RandomStyle(r *xrand.Rand) *Style {
	s := &Style{R: r}
	s.IndentUnit = []string{"  ", "    ", "\t", " ", ""}[r.Intn(5)]
	s.RandomIndent = r.Chance(1, 4)
	s.Newline = []string{"\n", "\n", "\r\n", "\r"}[r.Intn(4)]
	s.Comments = []int{0, 0, 6, 3, 2}[r.Intn(5)]
	s.TrailingWS = r.Chance(1, 3)
	s.Parens = []int{0, 0, 4, 2, 1}[r.Intn(5)]
	s.QuoteParams = []int{0, 3, 1}[r.Intn(3)]
	s.ParenDesc = []int{0, 2, 1}[r.Intn(3)]
	s.BlockAnnot = []int{0, 2, 1}[r.Intn(3)]
	s.BodyBorders = []int{0, 0, 3}[r.Intn(3)]
	return s
}

func (s *Style) chance(den int) bool {
	if s == nil || den <= 0 {
		return false
	}
	if s.Script != nil {
		s.ni++
		return s.Script(s.ni - 1)
	}
	if s.R == nil {
		return false
	}
	return s.R.Intn(den) == 0
}

// Span locates one directive in the rendered text.
type Span struct {
	Label   string // e.g. "type:@t3", "method:GET /a", "response:GET /a#1", "url:/a"
	Kind    string // directive keyword
	Begin   int    // keyword offset
	End     int    // end (exclusive) of the directive's own lines (parameters, annotation, body)
	FullEnd int    // end (exclusive) including children
	Depth   int
}

type Rendered struct {
	Text  string
	Spans []Span
	// Files holds the include files produced by extraction (project-relative path -> content); the root is Text.
	Files map[string]string
}

type renderer struct {
	sb    strings.Builder
	st    *Style
	spans []Span
	// paste extraction
	paste        func(label, kind string, depth int) string
	macros       *macroSet
	depth        int
	lastPaste    string
	lastPasteKey string
	incSeq       int
	dir          string // directory (project-relative, with trailing slash) of the file being rendered
	baseLevel    int
	noInclude    int // >0 directly inside explicit parentheses: INCLUDE runs are only cut from the children of implicitly nested directives
	// afterText is true when the previous thing was free text (description): no comment/blank may follow directly
	afterText bool
	// afterBody is true directly after a schema / enum / regex body
	afterBody bool
}

func (rd *renderer) indent(level int) string {
	st := rd.st
	if st == nil {
		return strings.Repeat("  ", level)
	}
	if st.Script != nil {
		if st.chance(1) {
			return strings.Repeat([]string{" ", "\t", "   "}[st.pick(3)], (st.Variant/3)%4)
		}
		return strings.Repeat(st.IndentUnit, level)
	}
	if st.RandomIndent && st.R != nil {
		return strings.Repeat([]string{" ", "\t", "  "}[st.R.Intn(3)], st.R.Intn(5))
	}
	return strings.Repeat(st.IndentUnit, level)
}

func (rd *renderer) nl() string { return "\n" } // converted at the end

// filler emits optional comments / blank lines between complete directives.
func (rd *renderer) filler(level int) {
	st := rd.st
	if st == nil || st.Comments == 0 || rd.afterText || (st.R == nil && st.Script == nil) {
		return
	}
	for st.chance(st.Comments) {
		v := st.pick(9)
		if rd.afterBody && v >= 3 && v <= 7 {
			// directly after a schema / enum body the schema dependency itself reads the comment (it measures the
			// body including trailing comments) and mishandles '#', '##' and '######': that is exercised on purpose
			// by C05's own family, not by every rendering
			v = 1
		}
		switch v {
		case 0:
			rd.sb.WriteString("\n")
		case 1:
			rd.sb.WriteString(strings.Repeat(" ", level) + "# a comment\n")
		case 2:
			rd.sb.WriteString(strings.Repeat(" ", level) + "### block\n comment ###\n")
		case 3:
			rd.sb.WriteString(strings.Repeat(" ", level) + "#\n") // a comment without text
		case 4:
			rd.sb.WriteString("##\n")
		case 5:
			rd.sb.WriteString(strings.Repeat(" ", level) + "# GET /x # y ## z\n")
		case 6:
			rd.sb.WriteString("######\n") // an empty block comment
		case 7:
			rd.sb.WriteString(strings.Repeat(" ", level) + "###\n#\n###\n")
		default:
			rd.sb.WriteString("   \t\n")
		}
		if st.Script != nil || st.pick(2) == 0 {
			break
		}
	}
}

func (rd *renderer) eol(allowComment bool) {
	st := rd.st
	if st != nil && st.TrailingWS && st.chance(2) {
		rd.sb.WriteString([]string{" ", "  ", "\t", " \t", "\t "}[st.pick(5)])
	}
	// a comment at the end of a directive line (keyword, parameters, annotation, parenthesis - never a body line): glued to
	// what precedes it or after blanks, one-line or block
	if allowComment && st != nil && st.Comments > 0 && (st.R != nil || st.Script != nil) && st.chance(st.Comments+1) {
		// (never a comment without text: in front of a body the line is read by the schema dependency, which mishandles
		// a bare '#' - that family is exercised on purpose by C05's comment-after-body templates)
		rd.sb.WriteString([]string{" # end of line", "# glued", " ### block ###", "###glued block###", "\t#\ttabs"}[st.pick(5)])
	}
	rd.sb.WriteString("\n")
}

func needsQuotes(p string) bool {
	if p == "" {
		return true
	}
	if strings.ContainsAny(p, " \t#\"\\") {
		return true
	}
	return strings.HasPrefix(p, "//") || strings.HasPrefix(p, "/*")
}

func quote(p string) string {
	p = strings.ReplaceAll(p, "\\", "\\\\")
	return "\"" + strings.ReplaceAll(p, "\"", "\\\"") + "\""
}

func (rd *renderer) param(p string) string {
	if needsQuotes(p) {
		return quote(p)
	}
	if rd.st != nil && rd.st.QuoteParams > 0 && rd.st.chance(rd.st.QuoteParams) {
		return quote(p)
	}
	return p
}

func (rd *renderer) annot(a string) string {
	if a == "" {
		return ""
	}
	if rd.st != nil && rd.st.chance(rd.st.BlockAnnot) {
		return rd.sep() + "/* " + a + " */"
	}
	return rd.sep() + "// " + a
}

// directive writes "<indent><keyword> <params><annotation>" and returns the keyword offset.
func (rd *renderer) directive(level int, keyword string, params []string, annotation string) int {
	if keyword != "PASTE" && keyword != "INCLUDE" {
		rd.lastPaste = ""
	}
	rd.filler(level)
	rd.sb.WriteString(rd.indent(level))
	begin := rd.sb.Len()
	rd.sb.WriteString(keyword)
	for _, p := range params {
		// a parameter that needs no quotes may be quoted all the same (names, notations, type references, formats…)
		if !strings.HasPrefix(p, "\"") && rd.st != nil && rd.st.QuoteParams > 0 && rd.st.chance(rd.st.QuoteParams*2) {
			p = quote(p)
		}
		rd.sb.WriteString(rd.sep() + p)
	}
	rd.sb.WriteString(rd.annot(annotation))
	// a comment at the end of the line only where no body can follow: before a body the line belongs to the body reader
	rd.eol(noBodyKeyword[keyword])
	rd.afterText = false
	rd.afterBody = false
	return begin
}

var noBodyKeyword = map[string]bool{"JSIGHT": true, "INFO": true, "Title": true, "Version": true, "SERVER": true, "BaseUrl": true, "URL": true,
	"GET": true, "POST": true, "PUT": true, "PATCH": true, "DELETE": true, "TAG": true, "Tags": true, "MACRO": true, "PASTE": true,
	"Protocol": true, "Method": true, "INCLUDE": true}

// sep is the blank run between a keyword and a parameter or between parameters.
func (rd *renderer) sep() string {
	st := rd.st
	if st != nil && st.TrailingWS && st.chance(3) {
		return []string{"  ", "\t", " \t", "\t ", "   "}[st.pick(5)]
	}
	return " "
}

func (rd *renderer) open(level int) {
	rd.sb.WriteString(rd.indent(level) + "(")
	rd.eol(true)
}

func (rd *renderer) close(level int) {
	rd.filler(level)
	rd.sb.WriteString(rd.indent(level) + ")")
	rd.eol(true)
	rd.afterText = false
}

func (rd *renderer) span(label, kind string, begin, end, depth int) int {
	rd.spans = append(rd.spans, Span{Label: label, Kind: kind, Begin: begin, End: end, FullEnd: end, Depth: depth})
	return len(rd.spans) - 1
}

func (rd *renderer) finish(i int) { rd.spans[i].FullEnd = rd.sb.Len() }

// ---- schema text ----

func ruleText(n *SNode) string {
	var rr []string
	if n.Min != nil {
		rr = append(rr, fmt.Sprintf("min: %d", *n.Min))
	}
	if n.Max != nil {
		rr = append(rr, fmt.Sprintf("max: %d", *n.Max))
	}
	if n.EnumRef != "" {
		rr = append(rr, "enum: "+n.EnumRef)
	}
	if len(n.OrAlts) > 0 {
		var alts []string
		for _, a := range n.OrAlts {
			if strings.HasPrefix(a, "@") {
				alts = append(alts, "\""+a+"\"")
			} else {
				alts = append(alts, "{type: \""+a+"\"}")
			}
		}
		rr = append(rr, "or: ["+strings.Join(alts, ", ")+"]")
	}
	if len(n.AllOf) == 1 {
		rr = append(rr, "allOf: \""+n.AllOf[0]+"\"")
	} else if len(n.AllOf) > 1 {
		var q []string
		for _, a := range n.AllOf {
			q = append(q, "\""+a+"\"")
		}
		rr = append(rr, "allOf: ["+strings.Join(q, ", ")+"]")
	}
	if n.Optional {
		rr = append(rr, "optional: true")
	}
	s := ""
	if len(rr) > 0 {
		s = "{" + strings.Join(rr, ", ") + "}"
	}
	if n.Note != "" {
		if s != "" {
			s += " - " + n.Note
		} else {
			s = n.Note
		}
	}
	if s == "" {
		return ""
	}
	return " // " + s
}

func scalarText(n *SNode) string {
	switch n.Kind {
	case "string":
		return "\"" + n.Val + "\""
	case "ref":
		return n.Ref
	case "or":
		return strings.Join(n.Or, " | ")
	}
	return n.Val
}

// SchemaLines renders a schema as canonical multi-line text (one value per line so that rules are unambiguous).
func SchemaLines(n *SNode, isRoot bool) []string {
	var out []string
	var rec func(n *SNode, prefix string, ind int, comma bool)
	rec = func(n *SNode, prefix string, ind int, comma bool) {
		pad := strings.Repeat("  ", ind)
		c := ""
		if comma {
			c = ","
		}
		switch n.Kind {
		case "object":
			if len(n.Props) == 0 && ruleText(n) == "" {
				out = append(out, pad+prefix+"{}"+c)
				return
			}
			out = append(out, pad+prefix+"{"+ruleText(n))
			for i, p := range n.Props {
				if p.KeyRef {
					rec(p.Node, p.Key+" : ", ind+1, i < len(n.Props)-1)
				} else {
					rec(p.Node, "\""+p.Key+"\": ", ind+1, i < len(n.Props)-1)
				}
			}
			out = append(out, pad+"}"+c)
		case "array":
			if len(n.Items) == 0 && ruleText(n) == "" {
				out = append(out, pad+prefix+"[]"+c)
				return
			}
			out = append(out, pad+prefix+"["+ruleText(n))
			for i, it := range n.Items {
				rec(it, "", ind+1, i < len(n.Items)-1)
			}
			out = append(out, pad+"]"+c)
		default:
			out = append(out, pad+prefix+scalarText(n)+c+ruleText(n))
		}
	}
	rec(n, "", 0, false)
	return out
}

// body writes a multi-line body (schema lines or a regex) at the given level.
func (rd *renderer) bodyLines(level int, lines []string) { rd.bodyLinesB(level, lines, true) }

// bodyLinesB: borders close the directive's context, so they are only allowed when no child follows the body.
func (rd *renderer) bodyLinesB(level int, lines []string, allowBorders bool) {
	borders := allowBorders && rd.st != nil && rd.st.chance(rd.st.BodyBorders)
	if borders {
		rd.sb.WriteString(rd.indent(level) + "(")
		rd.eol(false) // no comment next to a body: the schema dependency would read it
	}
	for _, l := range lines {
		rd.sb.WriteString(rd.indentFixed(level) + l + "\n")
	}
	if borders {
		rd.sb.WriteString(rd.indent(level) + ")")
		rd.eol(false)
	}
	rd.afterText = false
	rd.afterBody = true
}

// indentFixed: schema bodies keep one indentation per body (their bytes are not directive lines).
func (rd *renderer) indentFixed(level int) string {
	if rd.st == nil {
		return strings.Repeat("  ", level)
	}
	if rd.st.RandomIndent {
		return "  "
	}
	return strings.Repeat(rd.st.IndentUnit, level)
}

func (rd *renderer) description(level int, label string, lines []string, depth int) {
	begin := rd.directive(level, "Description", nil, "")
	paren := rd.st != nil && rd.st.chance(rd.st.ParenDesc)
	pad := rd.indentFixed(level + 1)
	if paren {
		rd.sb.WriteString(rd.indentFixed(level) + "(\n")
	}
	for _, l := range lines {
		rd.sb.WriteString(pad + l + "\n")
	}
	if paren {
		rd.sb.WriteString(rd.indentFixed(level) + ")\n")
		rd.afterText = false
	} else {
		rd.afterText = true
	}
	rd.span(label, "Description", begin, rd.sb.Len(), depth)
}

func bodyParams(b Body) (params []string, lines []string) {
	switch b.Form {
	case "ref":
		return []string{b.Ref}, nil
	case "refarray":
		return []string{"[" + b.Ref + "]"}, nil
	case "schema":
		return nil, SchemaLines(b.Schema, true)
	case "regex":
		return []string{"regex"}, []string{"/" + b.Regex + "/"}
	case "any":
		return []string{"any"}, nil
	default:
		return []string{"empty"}, nil
	}
}

// children decides about explicit parentheses around a complete child run.
func (rd *renderer) withChildren(level int, has bool, f func()) {
	if !has {
		return
	}
	paren := rd.st != nil && rd.st.chance(rd.st.Parens)
	// INCLUDE runs are cut from the children of implicitly nested directives only: the direct children of a directive
	// with parentheses stay, the children of an implicitly nested directive further in may go
	saved := rd.noInclude
	rd.noInclude = 0
	if paren {
		rd.open(level)
		rd.noInclude = 1
	}
	rd.lastPaste = ""
	f()
	rd.lastPaste = ""
	rd.noInclude = saved
	if paren {
		rd.close(level)
	}
}

// macroAdmits: kinds that may stand directly inside a MACRO.
func macroAdmits(kind string) bool {
	switch kind {
	case "INFO", "Title", "Version", "Description", "SERVER", "BaseUrl", "URL", "GET", "POST", "PUT", "PATCH", "DELETE",
		"Body", "Request", "response", "Path", "Headers", "Query", "TYPE", "ENUM":
		return true
	}
	return false
}

func parentLabel(label string) string {
	if i := strings.LastIndex(label, "/"); i > 0 {
		return label[:i]
	}
	return ""
}

// macroSet collects the macro bodies produced by paste extraction.
type macroSet struct {
	n           int
	repeatNames bool
	files []string // produced include files (project-relative paths), in creation order
	order []string
	bufs  map[string]*renderer
}

// elem renders one element (a directive with everything below it). With a paste hook the element may be moved
// into a macro: a PASTE is written in its place (once per run of consecutive elements going to the same macro).
func (rd *renderer) elem(label, kind string, level int, f func(r *renderer, level int)) {
	mode := ""
	if rd.paste != nil {
		mode = rd.paste(label, kind, rd.depth)
	}
	if mode == "include" && rd.noInclude > 0 {
		mode = ""
	}
	if mode != "" && mode != "include" && !macroAdmits(kind) {
		mode = ""
	}
	if mode == "" {
		rd.lastPaste = ""
		f(rd, level)
		return
	}
	// one macro / one file per run of consecutive extracted sibling elements
	name := rd.lastPaste
	key := fmt.Sprintf("%d|%s|%s", level, parentLabel(label), mode)
	if name != "" && rd.lastPasteKey != key {
		name = "" // a run never crosses into another parent
	}
	rd.lastPasteKey = key
	if name == "" {
		rd.macros.n++
		sub := &renderer{st: rd.st, paste: rd.paste, macros: rd.macros, depth: rd.depth + 1}
		if mode == "include" {
			// the included file lives in (a sub-directory of) the directory of the including file
			rel := fmt.Sprintf("inc%d.jst", rd.macros.n)
			if rd.macros.n%3 == 0 {
				rel = fmt.Sprintf("d%d/inc%d.jst", rd.macros.n, rd.macros.n)
			}
			if rd.macros.repeatNames {
				// the same written name in every directory: part1.jst, sub/part2.jst… counted per including file
				rd.incSeq++
				rel = fmt.Sprintf("sub/part%d.jst", rd.incSeq)
				if rd.incSeq%2 == 0 {
					rel = fmt.Sprintf("part%d.jst", rd.incSeq)
				}
				for rd.macros.bufs[rd.dir+rel] != nil {
					rd.incSeq++
					rel = fmt.Sprintf("sub/part%d.jst", rd.incSeq)
				}
			}
			name = rd.dir + rel
			sub.dir = rd.dir
			if i := strings.LastIndex(rel, "/"); i >= 0 {
				sub.dir = rd.dir + rel[:i+1]
			}
			rd.macros.bufs[name] = sub
			rd.macros.files = append(rd.macros.files, name)
			rd.directive(level, "INCLUDE", []string{rd.param(rel)}, "")
			sub.baseLevel = 0
		} else {
			name = fmt.Sprintf("@mac%d", rd.macros.n)
			rd.macros.bufs[name] = sub
			rd.macros.order = append(rd.macros.order, name)
			rd.directive(level, "PASTE", []string{name}, "")
		}
		rd.lastPaste = name
	}
	mb := rd.macros.bufs[name]
	if mode == "include" {
		f(mb, 0)
	} else {
		f(mb, 1)
	}
	mb.lastPaste = ""
}

func (rd *renderer) bodyHost(level int, label, keyword string, annotation string, headers *SNode, b Body, depth int) {
	var params []string
	var lines []string
	if !b.AsChild {
		params, lines = bodyParams(b)
	}
	begin := rd.directive(level, keyword, params, annotation)
	hasChildren := headers != nil || b.AsChild
	if lines != nil {
		rd.bodyLinesB(level+1, lines, !hasChildren)
	}
	si := rd.span(label, keyword, begin, rd.sb.Len(), depth)
	f := func() {
		if headers != nil {
			rd.elem(label+"/headers", "Headers", level+1, func(r *renderer, lv int) {
				hb := r.directive(lv, "Headers", nil, "")
				r.bodyLines(lv+1, SchemaLines(headers, true))
				r.span(label+"/headers", "Headers", hb, r.sb.Len(), depth+1)
			})
		}
		if b.AsChild {
			rd.elem(label+"/body", "Body", level+1, func(r *renderer, lv int) {
				p, l := bodyParams(b)
				bb := r.directive(lv, "Body", p, "")
				if l != nil {
					r.bodyLines(lv+1, l)
				}
				r.span(label+"/body", "Body", bb, r.sb.Len(), depth+1)
			})
		}
	}
	if lines != nil {
		f()
	} else {
		rd.withChildren(level, hasChildren, f)
	}
	rd.finish(si)
}

func (rd *renderer) method(level int, m *Method, depth int) {
	label := "method:" + m.Verb + " " + m.Path
	var params []string
	if m.OwnPath {
		params = []string{rd.param(m.Path)}
	}
	begin := rd.directive(level, m.Verb, params, m.Annotation)
	si := rd.span(label, m.Verb, begin, rd.sb.Len(), depth)
	has := m.Description != nil || m.Tags != nil || m.Query != nil || m.PathDecl != nil || m.Request != nil || len(m.Responses) > 0
	rd.withChildren(level, has, func() {
		desc := func() {
			rd.elem(label+"/description", "Description", level+1, func(r *renderer, lv int) {
				r.description(lv, label+"/description", m.Description, depth+1)
			})
		}
		if m.Description != nil && m.DescFirst {
			desc()
		}
		if m.Tags != nil {
			rd.lastPaste = ""
			b := rd.directive(level+1, "Tags", m.Tags, "")
			rd.span(label+"/tags", "Tags", b, rd.sb.Len(), depth+1)
		}
		if m.PathDecl != nil {
			rd.elem(label+"/path", "Path", level+1, func(r *renderer, lv int) {
				b := r.directive(lv, "Path", nil, "")
				r.bodyLines(lv+1, SchemaLines(m.PathDecl, true))
				r.span(label+"/path", "Path", b, r.sb.Len(), depth+1)
			})
		}
		if m.Query != nil {
			rd.elem(label+"/query", "Query", level+1, func(r *renderer, lv int) {
				var p []string
				if m.Query.Example != "" {
					p = append(p, r.param(m.Query.Example))
				}
				if m.Query.Format != "" {
					p = append(p, m.Query.Format)
				}
				b := r.directive(lv, "Query", p, "")
				r.bodyLines(lv+1, SchemaLines(m.Query.Schema, true))
				r.span(label+"/query", "Query", b, r.sb.Len(), depth+1)
			})
		}
		if m.Description != nil && !m.DescFirst {
			desc()
		}
		if m.Request != nil {
			rd.elem(label+"/request", "Request", level+1, func(r *renderer, lv int) {
				r.bodyHost(lv, label+"/request", "Request", "", m.Request.Headers, m.Request.Body, depth+1)
			})
		}
		for i, rs := range m.Responses {
			i, rs := i, rs
			rd.elem(fmt.Sprintf("%s/response#%d", label, i), "response", level+1, func(r *renderer, lv int) {
				r.bodyHost(lv, fmt.Sprintf("%s/response#%d", label, i), rs.Code, rs.Annotation, rs.Headers, rs.Body, depth+1)
			})
		}
	})
	rd.finish(si)
}

func blockLabel(b *Block) (label, kind string) {
	switch b.Kind {
	case "info":
		return "info", "INFO"
	case "server":
		return "server:" + b.Name, "SERVER"
	case "type":
		return "type:" + b.Name, "TYPE"
	case "enum":
		return "enum:" + b.Name, "ENUM"
	case "tag":
		return "tag:" + b.Name, "TAG"
	case "url", "rpcurl":
		return "url:" + b.Path, "URL"
	case "method":
		return "method:" + b.Method.Verb + " " + b.Method.Path, b.Method.Verb
	case "macro":
		return "macro:" + b.Name, "MACRO"
	case "paste":
		return "paste:" + b.Name, "PASTE"
	case "include":
		return "include:" + b.Name, "INCLUDE"
	case "raw":
		return "raw", "raw"
	}
	return b.Kind, b.Kind
}

func (rd *renderer) block(b *Block) {
	label, kind := blockLabel(b)
	rd.elem(label, kind, 0, func(r *renderer, lv int) { r.blockAt(b, lv) })
}

func (rd *renderer) blockAt(b *Block, L int) {
	switch b.Kind {
	case "info":
		begin := rd.directive(L, "INFO", nil, "")
		si := rd.span("info", "INFO", begin, rd.sb.Len(), 0)
		rd.withChildren(L, true, func() {
			rd.elem("info/title", "Title", L+1, func(r *renderer, lv int) {
				tb := r.directive(lv, "Title", []string{r.param(b.Title)}, "")
				r.span("info/title", "Title", tb, r.sb.Len(), 1)
			})
			if b.Version != "" {
				rd.elem("info/version", "Version", L+1, func(r *renderer, lv int) {
					vb := r.directive(lv, "Version", []string{r.param(b.Version)}, "")
					r.span("info/version", "Version", vb, r.sb.Len(), 1)
				})
			}
			if b.Description != nil {
				rd.elem("info/description", "Description", L+1, func(r *renderer, lv int) {
					r.description(lv, "info/description", b.Description, 1)
				})
			}
		})
		rd.finish(si)
	case "server":
		begin := rd.directive(L, "SERVER", []string{b.Name}, b.Annotation)
		si := rd.span("server:"+b.Name, "SERVER", begin, rd.sb.Len(), 0)
		rd.withChildren(L, true, func() {
			rd.elem("server:"+b.Name+"/baseurl", "BaseUrl", L+1, func(r *renderer, lv int) {
				bb := r.directive(lv, "BaseUrl", []string{r.param(b.BaseURL)}, "")
				r.span("server:"+b.Name+"/baseurl", "BaseUrl", bb, r.sb.Len(), 1)
			})
		})
		rd.finish(si)
	case "type":
		params := []string{b.Name}
		var lines []string
		switch b.Notation {
		case "jsight":
			lines = SchemaLines(b.Schema, true)
		case "regex":
			params = append(params, "regex")
			lines = []string{"/" + b.Regex + "/"}
		default:
			params = append(params, b.Notation)
		}
		begin := rd.directive(L, "TYPE", params, b.Annotation)
		if lines != nil {
			rd.bodyLines(L+1, lines)
		}
		rd.span("type:"+b.Name, "TYPE", begin, rd.sb.Len(), 0)
	case "enum":
		begin := rd.directive(L, "ENUM", []string{b.Name}, b.Annotation)
		var lines []string
		lines = append(lines, "[")
		for i, v := range b.EnumVals {
			t := v.Val
			if v.Kind == "string" {
				t = "\"" + v.Val + "\""
			}
			if i < len(b.EnumVals)-1 {
				t += ","
			}
			if v.Note != "" {
				t += " // " + v.Note
			}
			lines = append(lines, "  "+t)
		}
		lines = append(lines, "]")
		rd.bodyLines(L+1, lines)
		rd.span("enum:"+b.Name, "ENUM", begin, rd.sb.Len(), 0)
	case "tag":
		begin := rd.directive(L, "TAG", []string{b.Name}, b.Annotation)
		si := rd.span("tag:"+b.Name, "TAG", begin, rd.sb.Len(), 0)
		rd.withChildren(L, b.Description != nil, func() {
			rd.description(L+1, "tag:"+b.Name+"/description", b.Description, 1)
		})
		rd.finish(si)
	case "url":
		begin := rd.directive(L, "URL", []string{rd.param(b.Path)}, "")
		si := rd.span("url:"+b.Path, "URL", begin, rd.sb.Len(), 0)
		rd.withChildren(L, true, func() {
			if b.Tags != nil {
				rd.lastPaste = ""
				tb := rd.directive(L+1, "Tags", b.Tags, "")
				rd.span("url:"+b.Path+"/tags", "Tags", tb, rd.sb.Len(), 1)
			}
			if b.PathDecl != nil {
				rd.elem("url:"+b.Path+"/path", "Path", L+1, func(r *renderer, lv int) {
					pb := r.directive(lv, "Path", nil, "")
					r.bodyLines(lv+1, SchemaLines(b.PathDecl, true))
					r.span("url:"+b.Path+"/path", "Path", pb, r.sb.Len(), 1)
				})
			}
			for _, m := range b.Methods {
				m := m
				rd.elem("method:"+m.Verb+" "+m.Path, m.Verb, L+1, func(r *renderer, lv int) { r.method(lv, m, 1) })
			}
		})
		rd.finish(si)
	case "rpcurl":
		begin := rd.directive(L, "URL", []string{rd.param(b.Path)}, "")
		si := rd.span("url:"+b.Path, "URL", begin, rd.sb.Len(), 0)
		rd.lastPaste = ""
		rd.withChildren(L, true, func() {
			proto := func() {
				pb := rd.directive(L+1, "Protocol", []string{"json-rpc-2.0"}, "")
				rd.span("url:"+b.Path+"/protocol", "Protocol", pb, rd.sb.Len(), 1)
			}
			if b.ProtoAfter == 0 {
				proto()
			}
			if b.Tags != nil {
				tb := rd.directive(L+1, "Tags", b.Tags, "")
				rd.span("url:"+b.Path+"/tags", "Tags", tb, rd.sb.Len(), 1)
			}
			for mi0, m := range b.RPC {
				if b.ProtoAfter > 0 && mi0 == b.ProtoAfter {
					proto()
				}
				label := "rpc:" + m.Name + " " + b.Path
				mb := rd.directive(L+1, "Method", []string{rd.param(m.Name)}, m.Annotation)
				mi := rd.span(label, "Method", mb, rd.sb.Len(), 1)
				has := m.Description != nil || m.Tags != nil || m.Params != nil || m.Result != nil
				rd.withChildren(L+1, has, func() {
					if m.Tags != nil {
						tb := rd.directive(L+2, "Tags", m.Tags, "")
						rd.span(label+"/tags", "Tags", tb, rd.sb.Len(), 2)
					}
					if m.Description != nil {
						rd.description(L+2, label+"/description", m.Description, 2)
					}
					params := func() {
						if m.Params != nil {
							b2 := rd.directive(L+2, "Params", nil, "")
							rd.bodyLines(L+3, SchemaLines(m.Params, true))
							rd.span(label+"/params", "Params", b2, rd.sb.Len(), 2)
						}
					}
					// the order of Params and Result is free: half of the methods (told by their names, no random draw)
					// write the Result first
					if len(m.Name)%2 == 0 {
						params()
					}
					if m.Result != nil {
						b2 := rd.directive(L+2, "Result", nil, "")
						rd.bodyLines(L+3, SchemaLines(m.Result, true))
						rd.span(label+"/result", "Result", b2, rd.sb.Len(), 2)
					}
					if len(m.Name)%2 != 0 {
						params()
					}
				})
				rd.finish(mi)
			}
			if b.ProtoAfter > 0 && b.ProtoAfter >= len(b.RPC) {
				proto()
			}
		})
		rd.finish(si)
	case "method":
		rd.method(L, b.Method, 0)
	case "macro":
		begin := rd.directive(L, "MACRO", []string{b.Name}, "")
		si := rd.span("macro:"+b.Name, "MACRO", begin, rd.sb.Len(), 0)
		rd.open(L)
		for _, c := range b.MacroBody {
			rd.blockAt(c, L+1)
		}
		rd.close(L)
		rd.finish(si)
	case "paste":
		begin := rd.directive(L, "PASTE", []string{b.Name}, "")
		rd.span("paste:"+b.Name, "PASTE", begin, rd.sb.Len(), 0)
	case "include":
		begin := rd.directive(L, "INCLUDE", []string{rd.param(b.Name)}, "")
		rd.span("include:"+b.Name, "INCLUDE", begin, rd.sb.Len(), 0)
	case "raw":
		rd.filler(L)
		rd.sb.WriteString(b.Name)
		rd.afterText = false
	}
}

// RenderOpts adds the transformations that work at rendering time.
type RenderOpts struct {
	Style *Style
	// Paste: return a macro name to move the element with this label into that macro (PASTE written in place).
	Paste func(label, kind string, depth int) string
	// MacrosFirst puts the produced MACRO definitions before the other blocks instead of after them.
	MacrosFirst bool
	// NoHeader omits the JSIGHT line (included files).
	NoHeader bool
	// RepeatIncludeNames makes the cut files reuse the same written names in different directories.
	RepeatIncludeNames bool
}

// RenderWith renders with options.
func RenderWith(m *Model, o RenderOpts) *Rendered {
	rd := &renderer{st: o.Style, paste: o.Paste, macros: &macroSet{bufs: map[string]*renderer{}, repeatNames: o.RepeatIncludeNames}}
	for _, b := range m.Blocks {
		rd.block(b)
	}
	var macros strings.Builder
	// a macro body may itself have produced macros while being rendered: iterate until stable
	for i := 0; i < len(rd.macros.order); i++ {
		name := rd.macros.order[i]
		macros.WriteString("MACRO " + name + "\n(\n" + rd.macros.bufs[name].sb.String() + ")\n")
	}
	head := "JSIGHT 0.3\n"
	if o.NoHeader {
		head = ""
	}
	text := head + rd.sb.String() + macros.String()
	spans := rd.spans
	if o.MacrosFirst {
		text = head + macros.String() + rd.sb.String()
		spans = nil
	} else {
		for i := range spans {
			spans[i].Begin += len(head)
			spans[i].End += len(head)
			spans[i].FullEnd += len(head)
		}
	}
	files := map[string]string{}
	for _, fn := range rd.macros.files {
		files[fn] = rd.macros.bufs[fn].sb.String()
	}
	if o.Style != nil && o.Style.Newline != "" && o.Style.Newline != "\n" {
		text = strings.ReplaceAll(text, "\n", o.Style.Newline)
		for k, v := range files {
			files[k] = strings.ReplaceAll(v, "\n", o.Style.Newline)
		}
	}
	return &Rendered{Text: text, Spans: spans, Files: files}
}

// Render turns the model into text. With a nil style the canonical form is produced.
func Render(m *Model, st *Style) *Rendered { return RenderWith(m, RenderOpts{Style: st}) }

// RenderBlocks renders a list of blocks without the JSIGHT line (included files, fragments).
func RenderBlocks(blocks []*Block, st *Style) string {
	return RenderWith(&Model{Blocks: blocks}, RenderOpts{Style: st, NoHeader: true}).Text
}
