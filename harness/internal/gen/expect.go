package gen

import (
	"fmt"
	"strings"

	"github.com/jsightapi/jsight-api-go-library/catalog"

	"verifharness/internal/jsonx"
)

// Wild is a wildcard node: the expected side does not predict this value (it must be present).
func Wild() *jsonx.Node { return &jsonx.Node{Kind: '*'} }

func str(s string) *jsonx.Node  { return &jsonx.Node{Kind: 's', Str: s} }
func boolean(b bool) *jsonx.Node { return &jsonx.Node{Kind: 'b', Bool: b} }

type ob struct{ n *jsonx.Node }

func newObj() *ob { return &ob{&jsonx.Node{Kind: 'o'}} }

func (o *ob) set(k string, v *jsonx.Node) *ob {
	o.n.Keys = append(o.n.Keys, k)
	o.n.Vals = append(o.n.Vals, v)
	return o
}

func (o *ob) setIf(cond bool, k string, v *jsonx.Node) *ob {
	if cond {
		o.set(k, v)
	}
	return o
}

func arr(items ...*jsonx.Node) *jsonx.Node { return &jsonx.Node{Kind: 'a', Arr: items} }

func strArr(ss []string) *jsonx.Node {
	n := &jsonx.Node{Kind: 'a'}
	for _, s := range ss {
		n.Arr = append(n.Arr, str(s))
	}
	return n
}

type projector struct {
	m *Model
}

// collapse replaces runs of (ASCII) blanks by one space and trims: other characters - a no-break space, an
// ideographic space - are content and stay as they are.
func collapse(s string) string {
	f := strings.FieldsFunc(s, func(r rune) bool { return r == ' ' || r == '\t' || r == '\n' || r == '\r' || r == '\f' || r == '\v' })
	return strings.Join(f, " ")
}

func (p *projector) rules(n *SNode) []*jsonx.Node {
	var out []*jsonx.Node
	lit := func(key, tt, val string) {
		out = append(out, newObj().set("key", str(key)).set("tokenType", str(tt)).set("scalarValue", str(val)).n)
	}
	if n.Min != nil {
		lit("min", "number", fmt.Sprint(*n.Min))
	}
	if n.Max != nil {
		lit("max", "number", fmt.Sprint(*n.Max))
	}
	if n.EnumRef != "" {
		lit("enum", "reference", n.EnumRef)
	}
	if len(n.OrAlts) > 0 {
		var ch []*jsonx.Node
		for _, a := range n.OrAlts {
			if strings.HasPrefix(a, "@") {
				ch = append(ch, newObj().set("tokenType", str("reference")).set("scalarValue", str(a)).n)
			} else {
				ch = append(ch, newObj().set("tokenType", str("object")).set("children",
					arr(newObj().set("key", str("type")).set("tokenType", str("string")).set("scalarValue", str(a)).n)).n)
			}
		}
		out = append(out, newObj().set("key", str("or")).set("tokenType", str("array")).set("children", arr(ch...)).n)
	}
	if len(n.AllOf) == 1 {
		lit("allOf", "reference", n.AllOf[0])
	} else if len(n.AllOf) > 1 {
		var ch []*jsonx.Node
		for _, a := range n.AllOf {
			ch = append(ch, newObj().set("tokenType", str("reference")).set("scalarValue", str(a)).n)
		}
		out = append(out, newObj().set("key", str("allOf")).set("tokenType", str("array")).set("children", arr(ch...)).n)
	}
	if n.Optional {
		lit("optional", "boolean", "true")
	}
	return out
}

// FlatProps returns the properties of an object node with the inherited ones first (reference for allOf):
// for every named base in order, the base's flattened properties marked with that base, each key once, then the own ones.
func (p *projector) FlatProps(n *SNode) (props []*SProp, from []string) {
	seen := map[string]bool{}
	for _, b := range n.AllOf {
		t := p.m.TypeByName(b)
		if t == nil || t.Schema == nil || t.Schema.Kind != "object" {
			continue
		}
		bp, _ := p.FlatProps(t.Schema)
		for _, pr := range bp {
			// "@k" (a literal key) and @k (any key of type @k) are two properties
			id := pr.Key
			if pr.KeyRef {
				id = "ref " + id
			}
			if seen[id] {
				continue
			}
			seen[id] = true
			props = append(props, pr)
			from = append(from, b)
		}
	}
	for _, pr := range n.Props {
		props = append(props, pr)
		from = append(from, "")
	}
	return
}

func (p *projector) content(n *SNode, key *string, inherited string, forceOptional bool) *jsonx.Node {
	o := newObj()
	optional := n.Optional || forceOptional
	rr := p.rules(n)
	switch n.Kind {
	case "object", "array":
		o.setIf(len(rr) > 0, "rules", arr(rr...))
		if key != nil {
			o.set("key", str(*key))
		}
		o.set("tokenType", str(n.Kind)).set("type", str(n.Kind))
		o.setIf(inherited != "", "inheritedFrom", str(inherited))
		o.setIf(n.Note != "", "note", str(collapse(n.Note)))
		var ch []*jsonx.Node
		if n.Kind == "object" {
			props, from := p.FlatProps(n)
			for i, pr := range props {
				k := pr.Key
				c := p.content(pr.Node, &k, from[i], false)
				if pr.KeyRef {
					c.Keys = append(c.Keys, "isKeyUserTypeRef")
					c.Vals = append(c.Vals, boolean(true))
				}
				ch = append(ch, c)
			}
		} else {
			for _, it := range n.Items {
				ch = append(ch, p.content(it, nil, "", true))
			}
		}
		o.set("children", arr(ch...))
		o.set("optional", boolean(optional))
	default:
		o.setIf(n.Note != "", "note", str(collapse(n.Note)))
		if key != nil {
			o.set("key", str(*key))
		}
		var tt, ty, sv string
		switch n.Kind {
		case "int":
			tt, ty, sv = "number", "integer", n.Val
		case "float":
			tt, ty, sv = "number", "float", n.Val
		case "string":
			tt, ty, sv = "string", "string", n.Val
			if n.EnumRef != "" {
				ty = "enum"
			}
		case "bool":
			tt, ty, sv = "boolean", "boolean", n.Val
		case "null":
			tt, ty, sv = "null", "null", "null"
		case "ref":
			tt, ty, sv = "reference", n.Ref, n.Ref
		case "or":
			tt, ty, sv = "reference", "mixed", strings.Join(n.Or, " | ")
		}
		if len(n.OrAlts) > 0 {
			ty = "mixed"
		}
		o.set("tokenType", str(tt)).set("type", str(ty)).set("scalarValue", str(sv))
		o.setIf(inherited != "", "inheritedFrom", str(inherited))
		o.setIf(len(rr) > 0, "rules", arr(rr...))
		o.set("optional", boolean(optional))
	}
	return o.n
}

// used collects the user types a schema names, in the order the library meets them.
func (p *projector) used(n *SNode, out *[]string) {
	add := func(s string) {
		for _, x := range *out {
			if x == s {
				return
			}
		}
		*out = append(*out, s)
	}
	for _, a := range n.OrAlts {
		if strings.HasPrefix(a, "@") {
			add(a)
		}
	}
	switch n.Kind {
	case "ref":
		add(n.Ref)
	case "or":
		for _, o := range n.Or {
			add(o)
		}
	case "object":
		for _, a := range n.AllOf {
			add(a)
		}
		for _, pr := range n.Props {
			if pr.KeyRef {
				add(pr.Key)
			}
			p.used(pr.Node, out)
		}
	case "array":
		for _, it := range n.Items {
			p.used(it, out)
		}
	}
}

// example predicts the schema example; exact=false when the closure holds something this projector does not predict
// (regex-typed values, allOf ordering inside examples).
func (p *projector) example(n *SNode) (text string, exact bool) {
	exact = true
	var rec func(n *SNode) string
	rec = func(n *SNode) string {
		switch n.Kind {
		case "string":
			return "\"" + n.Val + "\""
		case "ref":
			t := p.m.TypeByName(n.Ref)
			if t == nil || t.Notation != "jsight" {
				exact = false
				return "null"
			}
			return rec(t.Schema)
		case "or":
			t := p.m.TypeByName(n.Or[0])
			if t == nil || t.Notation != "jsight" {
				exact = false
				return "null"
			}
			return rec(t.Schema)
		case "array":
			var parts []string
			for _, it := range n.Items {
				parts = append(parts, rec(it))
			}
			return "[" + strings.Join(parts, ",") + "]"
		case "object":
			if len(n.AllOf) > 0 {
				exact = false
			}
			var parts []string
			for _, pr := range n.Props {
				if pr.KeyRef {
					exact = false
				}
				parts = append(parts, "\""+pr.Key+"\":"+rec(pr.Node))
			}
			return "{" + strings.Join(parts, ",") + "}"
		}
		return n.Val
	}
	text = rec(n)
	return
}

func (p *projector) jsightSchema(n *SNode) *jsonx.Node {
	o := newObj()
	o.set("content", p.content(n, nil, "", false))
	ex, exact := p.example(n)
	if exact {
		o.set("example", str(ex))
	} else {
		o.set("example", Wild())
	}
	o.set("notation", str("jsight"))
	var u []string
	p.used(n, &u)
	o.setIf(len(u) > 0, "usedUserTypes", strArr(u))
	return o.n
}

func regexSchema(re string) *jsonx.Node {
	return newObj().set("content", str(re)).set("example", Wild()).set("notation", str("regex")).n
}

func (p *projector) body(b Body) *jsonx.Node {
	o := newObj()
	switch b.Form {
	case "ref":
		o.set("format", str("json")).set("schema", p.jsightSchema(&SNode{Kind: "ref", Ref: b.Ref}))
	case "refarray":
		o.set("format", str("json")).set("schema", p.jsightSchema(&SNode{Kind: "array", Items: []*SNode{{Kind: "ref", Ref: b.Ref}}}))
	case "schema":
		o.set("format", str("json")).set("schema", p.jsightSchema(b.Schema))
	case "regex":
		o.set("format", str("plainString")).set("schema", regexSchema(b.Regex))
	default:
		o.set("format", str("binary")).set("schema", newObj().set("notation", str(b.Form)).n)
	}
	return o.n
}

type interaction struct {
	id    string
	proto string
	path  string
	tags  []string // explicit tags (own or URL's); nil: automatic
	node  *ob
}

// DeclaredPathProps maps a path prefix to the property a Path directive declares for it.
func (m *Model) DeclaredPathProps() map[string]*SProp {
	out := map[string]*SProp{}
	pj := &projector{m: m}
	add := func(path string, decl *SNode) {
		if decl == nil {
			return
		}
		// the body may be a reference to an object type (through aliases) and may inherit properties (allOf)
		for hops := 0; decl != nil && decl.Kind == "ref" && hops < 10; hops++ {
			t := m.TypeByName(decl.Ref)
			if t == nil {
				return
			}
			decl = t.Schema
		}
		if decl == nil || decl.Kind != "object" {
			return
		}
		props, from := pj.FlatProps(decl)
		prefixes, names := PathParams(path)
		for k, pr := range props {
			for i := range names {
				if names[i] == pr.Key {
					if _, ok := out[prefixes[i]]; !ok {
						if from[k] != "" {
							cp := *pr
							cp.From = from[k]
							pr = &cp
						}
						out[prefixes[i]] = pr
					}
				}
			}
		}
	}
	for _, b := range m.Blocks {
		switch b.Kind {
		case "url":
			add(b.Path, b.PathDecl)
			for _, me := range b.Methods {
				add(me.Path, me.PathDecl)
			}
		case "method":
			add(b.Method.Path, b.Method.PathDecl)
		}
	}
	return out
}

func (p *projector) pathVariables(path string, decl map[string]*SProp) *jsonx.Node {
	prefixes, names := PathParams(path)
	var ch []*jsonx.Node
	var used []string
	for i := range names {
		pr, ok := decl[prefixes[i]]
		if !ok {
			continue
		}
		k := names[i]
		ch = append(ch, p.content(pr.Node, &k, pr.From, false))
		p.used(pr.Node, &used)
	}
	if len(ch) == 0 {
		return nil
	}
	content := newObj().set("tokenType", str("object")).set("type", str("object")).set("children", arr(ch...)).set("optional", boolean(false)).n
	sch := newObj().set("content", content).set("notation", str("jsight"))
	sch.setIf(len(used) > 0, "usedUserTypes", strArr(used))
	return newObj().set("schema", sch.n).n
}

func descText(lines []string) string { return strings.Join(lines, "\n") }

func (p *projector) httpInteraction(m *Method, urlTags []string, decl map[string]*SProp) interaction {
	id := "http " + m.Verb + " " + m.Path
	o := newObj()
	o.set("id", str(id)).set("protocol", str("http")).set("httpMethod", str(m.Verb)).set("path", str(m.Path))
	if pv := p.pathVariables(m.Path, decl); pv != nil {
		o.set("pathVariables", pv)
	}
	tags := m.Tags
	if tags == nil {
		tags = urlTags
	}
	o.set("tags", nil) // filled later
	o.setIf(m.Annotation != "", "annotation", str(collapse(m.Annotation)))
	o.setIf(m.Description != nil, "description", str(descText(m.Description)))
	if m.Query != nil {
		q := newObj()
		q.setIf(m.Query.Example != "", "example", str(m.Query.Example))
		f := m.Query.Format
		if f == "" {
			f = "htmlFormEncoded"
		}
		q.set("format", str(f)).set("schema", p.jsightSchema(m.Query.Schema))
		o.set("query", q.n)
	}
	if m.Request != nil {
		rq := newObj()
		if m.Request.Headers != nil {
			rq.set("headers", newObj().set("schema", p.jsightSchema(m.Request.Headers)).n)
		}
		rq.set("body", p.body(m.Request.Body))
		o.set("request", rq.n)
	}
	if len(m.Responses) > 0 {
		var rs []*jsonx.Node
		for _, r := range m.Responses {
			ro := newObj().set("code", str(r.Code))
			ro.setIf(r.Annotation != "", "annotation", str(collapse(r.Annotation)))
			if r.Headers != nil {
				ro.set("headers", newObj().set("schema", p.jsightSchema(r.Headers)).n)
			}
			ro.set("body", p.body(r.Body))
			rs = append(rs, ro.n)
		}
		o.set("responses", arr(rs...))
	}
	return interaction{id: id, proto: "http", path: m.Path, tags: tags, node: o}
}

func (p *projector) rpcInteraction(path string, m *RPCMethod, urlTags []string) interaction {
	id := "json-rpc-2.0 " + m.Name + " " + path
	o := newObj()
	o.set("id", str(id)).set("protocol", str("json-rpc-2.0")).set("path", str(path)).set("method", str(m.Name))
	tags := m.Tags
	if tags == nil {
		tags = urlTags
	}
	o.set("tags", nil)
	o.setIf(m.Annotation != "", "annotation", str(collapse(m.Annotation)))
	o.setIf(m.Description != nil, "description", str(descText(m.Description)))
	if m.Params != nil {
		o.set("params", newObj().set("schema", p.jsightSchema(m.Params)).n)
	}
	if m.Result != nil {
		o.set("result", newObj().set("schema", p.jsightSchema(m.Result)).n)
	}
	return interaction{id: id, proto: "json-rpc-2.0", path: path, tags: tags, node: o}
}

// Expected builds the catalog the model denotes.
func Expected(m *Model) *jsonx.Node {
	p := &projector{m: m}
	decl := m.DeclaredPathProps()
	root := newObj()

	type tagAcc struct {
		name, title string
		desc        []string
		http, rpc   []string
	}
	var tags []*tagAcc
	tagIdx := map[string]*tagAcc{}
	for _, b := range m.Blocks {
		if b.Kind == "tag" {
			t := &tagAcc{name: b.Name, title: collapse(b.Annotation), desc: b.Description}
			if t.title == "" {
				t.title = b.Name
			}
			tags = append(tags, t)
			tagIdx[b.Name] = t
		}
	}
	var inters []interaction
	for _, b := range m.Blocks {
		switch b.Kind {
		case "url":
			for _, me := range b.Methods {
				inters = append(inters, p.httpInteraction(me, b.Tags, decl))
			}
		case "rpcurl":
			for _, rm := range b.RPC {
				inters = append(inters, p.rpcInteraction(b.Path, rm, b.Tags))
			}
		case "method":
			inters = append(inters, p.httpInteraction(b.Method, nil, decl))
		}
	}
	for i := range inters {
		in := &inters[i]
		names := in.tags
		if names == nil {
			title := catalog.VerifPathTagTitle(in.path)
			name := catalog.VerifTagName(title)
			if _, ok := tagIdx[name]; !ok {
				t := &tagAcc{name: name, title: title}
				tags = append(tags, t)
				tagIdx[name] = t
			}
			names = []string{name}
		}
		for _, n := range names {
			t := tagIdx[n]
			if t == nil {
				continue
			}
			if in.proto == "http" {
				t.http = append(t.http, in.id)
			} else {
				t.rpc = append(t.rpc, in.id)
			}
		}
		for k := range in.node.n.Keys {
			if in.node.n.Keys[k] == "tags" {
				in.node.n.Vals[k] = strArr(names)
			}
		}
	}
	tagsObj := newObj()
	for _, t := range tags {
		to := newObj().set("name", str(t.name)).set("title", str(t.title))
		to.setIf(t.desc != nil, "description", str(descText(t.desc)))
		var groups []*jsonx.Node
		if len(t.http) > 0 {
			groups = append(groups, newObj().set("protocol", str("http")).set("interactions", strArr(t.http)).n)
		}
		if len(t.rpc) > 0 {
			groups = append(groups, newObj().set("protocol", str("json-rpc-2.0")).set("interactions", strArr(t.rpc)).n)
		}
		to.set("interactionGroups", arr(groups...))
		tagsObj.set(t.name, to.n)
	}
	root.set("tags", tagsObj.n)

	servers, types, enums := newObj(), newObj(), newObj()
	for _, b := range m.Blocks {
		switch b.Kind {
		case "info":
			io := newObj().set("title", str(b.Title))
			io.setIf(b.Version != "", "version", str(b.Version))
			io.setIf(b.Description != nil, "description", str(descText(b.Description)))
			root.set("info", io.n)
		case "server":
			so := newObj()
			so.setIf(b.Annotation != "", "annotation", str(collapse(b.Annotation)))
			so.set("baseUrl", str(b.BaseURL))
			servers.set(b.Name, so.n)
		case "type":
			to := newObj()
			to.setIf(b.Annotation != "", "annotation", str(collapse(b.Annotation)))
			switch b.Notation {
			case "jsight":
				to.set("schema", p.jsightSchema(b.Schema))
			case "regex":
				to.set("schema", regexSchema(b.Regex))
			default:
				to.set("schema", newObj().set("notation", str(b.Notation)).n)
			}
			types.set(b.Name, to.n)
		case "enum":
			var ch []*jsonx.Node
			for _, v := range b.EnumVals {
				tt := map[string]string{"string": "string", "int": "number", "float": "number", "bool": "boolean", "null": "null"}[v.Kind]
				vo := newObj().set("tokenType", str(tt))
				vo.setIf(v.Note != "", "note", str(v.Note))
				vo.set("scalarValue", str(v.Val))
				ch = append(ch, vo.n)
			}
			eo := newObj().set("annotation", str(collapse(b.Annotation))).set("description", str("")).
				set("value", newObj().set("tokenType", str("array")).set("children", arr(ch...)).n)
			enums.set(b.Name, eo.n)
		}
	}
	root.setIf(len(servers.n.Keys) > 0, "servers", servers.n)
	root.setIf(len(types.n.Keys) > 0, "userTypes", types.n)
	root.setIf(len(enums.n.Keys) > 0, "userEnums", enums.n)
	io := newObj()
	for _, in := range inters {
		io.set(in.id, in.node.n)
	}
	root.set("interactions", io.n)
	root.set("jsight", str("0.3")).set("jdocExchangeVersion", str("2.0.0"))
	return root.n
}

// orderedPath says whether the key order of the object at this path carries meaning (collections) or not (struct fields).
func orderedPath(path string) bool {
	switch path {
	case "$.tags", "$.servers", "$.userTypes", "$.userEnums", "$.interactions":
		return true
	}
	return strings.HasSuffix(path, ".children") && strings.HasPrefix(path, "$.tags")
}

// DiffCatalog compares an expected catalog (may contain wildcards) with an observed one.
// Collections are compared in order; struct-like objects by key set. It returns "" when they agree.
func DiffCatalog(want, got *jsonx.Node, path string) string {
	if want != nil && want.Kind == '*' {
		if got == nil {
			return path + ": missing"
		}
		return ""
	}
	if want == nil || got == nil {
		if want == got {
			return ""
		}
		if want == nil {
			return path + ": unexpected " + shortNode(got)
		}
		return path + ": missing (expected " + shortNode(want) + ")"
	}
	if want.Kind != got.Kind {
		return fmt.Sprintf("%s: expected %s, got %s", path, shortNode(want), shortNode(got))
	}
	switch want.Kind {
	case 'o':
		if orderedPath(path) {
			for i := 0; i < len(want.Keys) && i < len(got.Keys); i++ {
				if want.Keys[i] != got.Keys[i] {
					return fmt.Sprintf("%s: entry #%d is %q, expected %q (expected order %v, got %v)", path, i, got.Keys[i], want.Keys[i], want.Keys, got.Keys)
				}
			}
			if len(want.Keys) != len(got.Keys) {
				return fmt.Sprintf("%s: expected entries %v, got %v", path, want.Keys, got.Keys)
			}
			for i := range want.Keys {
				if d := DiffCatalog(want.Vals[i], got.Vals[i], path+"."+want.Keys[i]); d != "" {
					return d
				}
			}
			return ""
		}
		for i, k := range want.Keys {
			g := got.Get(k)
			if g == nil {
				return fmt.Sprintf("%s.%s: missing (expected %s)", path, k, shortNode(want.Vals[i]))
			}
			if d := DiffCatalog(want.Vals[i], g, path+"."+k); d != "" {
				return d
			}
		}
		for i, k := range got.Keys {
			if want.Get(k) == nil {
				return fmt.Sprintf("%s.%s: not declared by the document: %s", path, k, shortNode(got.Vals[i]))
			}
		}
	case 'a':
		for i := 0; i < len(want.Arr) && i < len(got.Arr); i++ {
			if d := DiffCatalog(want.Arr[i], got.Arr[i], fmt.Sprintf("%s[%d]", path, i)); d != "" {
				return d
			}
		}
		if len(want.Arr) != len(got.Arr) {
			return fmt.Sprintf("%s: expected %d items, got %d", path, len(want.Arr), len(got.Arr))
		}
	case 's':
		if want.Str != got.Str {
			return fmt.Sprintf("%s: expected %q, got %q", path, want.Str, got.Str)
		}
	case 'n':
		if want.Num != got.Num {
			return fmt.Sprintf("%s: expected %s, got %s", path, want.Num, got.Num)
		}
	case 'b':
		if want.Bool != got.Bool {
			return fmt.Sprintf("%s: expected %v, got %v", path, want.Bool, got.Bool)
		}
	}
	return ""
}

func shortNode(n *jsonx.Node) string {
	s := jsonx.Render(n)
	if len(s) > 160 {
		s = s[:160] + "…"
	}
	return s
}
