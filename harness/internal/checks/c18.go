package checks

import (
	"regexp"
	"bufio"
	"bytes"
	"os"
	"os/exec"
	"path/filepath"
	"strconv"

	"github.com/jsightapi/jsight-schema-go-library/fs"

	"fmt"
	"github.com/jsightapi/jsight-api-go-library/core"
	"github.com/jsightapi/jsight-api-go-library/directive"
	"github.com/jsightapi/jsight-api-go-library/kit"
	"sort"
	"strings"

	"verifharness/internal/fw"
	"verifharness/internal/gen"
	"verifharness/internal/run"
	"verifharness/internal/xrand"
)

var c18AllKinds = []string{
	"JSIGHT", "INFO", "Title", "Version", "Description", "SERVER", "BaseUrl", "URL", "GET", "POST", "PUT", "PATCH", "DELETE",
	"Body", "Request", "HTTP-response-code", "Path", "Headers", "Query", "TYPE", "ENUM", "MACRO", "PASTE", "INCLUDE",
	"Protocol", "Method", "Params", "Result", "TAG", "Tags",
}

func init() {
	fw.Register(&fw.Check{
		ID:    "C18",
		Level: "fault_enumeration",
		Rule: "configurations x programs: a generated model whose rendering is accepted without options (written directly, with parts moved into macros, or cut into included files) is validated under ban sets - each of the 30 directive kinds alone (chosen by index) and random larger sets. " +
			"If a directive of a banned kind occurs (directly, through PASTE, in an included file; INCLUDE, MACRO and PASTE themselves included) the project must be rejected with a 'directive not allowed' diagnostic; written directly, the diagnostic must lie inside a directive of a banned kind; " +
			"with INCLUDE banned the named file must not be read (a missing or broken included file must not change the diagnostic). If no banned kind occurs, verdict and catalog bytes must equal the result without the option. " +
			"distinct_nontrivial = distinct (banned kind hit | none, carrier)",
		Assumptions: []string{
			"when several banned kinds occur the diagnostic may name any of them",
			"'before any file it names is read' is observed twice: through the diagnostic (a missing/broken target must not surface) and through a syscall trace (strace) of on-disk projects validated with INCLUDE banned, in which no file of the project other than the root may be opened; when strace is unavailable that part is reported inconclusive",
		},
		Families: []fw.Family{
			{Name: "bans", N: constN(2400, 60000), Gen: genModelCase, Eval: c18Eval},
			{Name: "option-reuse", N: constN(600, 20000), Gen: genModelCase, Eval: c18EvalReuse},
			{Name: "after-description", N: func(string) int { return c15FollowCount() }, Gen: c15GenFollow, Eval: c18EvalAfterDescription},
			{Name: "after-empty-annotation", N: func(string) int { return len(c18AfterAnn) * 4 * 3 }, Gen: func(r *xrand.Rand, idx int, tier string) *fw.Case {
				return &fw.Case{Ints: map[string]int{"k": idx % len(c18AfterAnn), "a": (idx / len(c18AfterAnn)) % 4, "nl": idx / len(c18AfterAnn) / 4}, Docs: []run.Doc{{}}}
			}, Eval: c18EvalAfterAnnotation},
		},
		Floors: map[string]int64{"banned_hits_checked": 2000, "unaffected_checked": 2000, "opens_projects_run": 100},
		Post:   c18Post,
	})
	fw.RegisterAux("c18opens", c18AuxOpens)
}

// ---- "before any file it names is read", under strace ----

// c18Projects: on-disk projects whose root includes files (existing, nested, missing); deterministic in (tier, seed).
func c18Projects(tier string, seed uint64) []map[string]string {
	n := 150
	if tier == "thorough" {
		n = 3000
	}
	var out []map[string]string
	for i := 0; i < n; i++ {
		r := xrand.Derive(seed, i, "c18opens")
		files := map[string]string{}
		var root strings.Builder
		root.WriteString("JSIGHT 0.3\n")
		k := r.Range(1, 3)
		for j := 0; j < k; j++ {
			name := fmt.Sprintf("inc%d.jst", j)
			if r.Chance(1, 3) {
				name = fmt.Sprintf("sub/inc%d.jst", j)
			}
			where := r.Intn(3)
			switch where {
			case 0:
				root.WriteString("INCLUDE " + name + "\n")
			case 1:
				root.WriteString(fmt.Sprintf("URL /u%d\n  INCLUDE %s\n", j, name))
			default:
				root.WriteString(fmt.Sprintf("MACRO @m%d\n  INCLUDE %s\nPASTE @m%d\n", j, name, j))
			}
			switch {
			case where == 1:
				files[name] = fmt.Sprintf("GET\n  200 any\n")
			case r.Chance(1, 4):
				// missing file
			case r.Chance(1, 3):
				files[name] = fmt.Sprintf("TYPE @t%d\n  {\"a\": 1}\nINCLUDE deeper%d.jst\n", j, j)
				files[filepath.Join(filepath.Dir(name), fmt.Sprintf("deeper%d.jst", j))] = fmt.Sprintf("GET /deep%d\n  200 any\n", j)
			default:
				files[name] = fmt.Sprintf("GET /inc%d\n  200 any\n", j)
			}
		}
		root.WriteString("GET /root\n  200 any\n")
		files["root.jst"] = root.String()
		out = append(out, files)
	}
	return out
}

func c18BanFor(i int) []string {
	switch i % 3 {
	case 0:
		return []string{"INCLUDE"}
	case 1:
		return []string{"TAG", "INCLUDE", "Query"}
	default:
		return []string{"INCLUDE", "GET"}
	}
}

// aux: jsmon aux c18opens <basedir> <tier> <seed>
func c18AuxOpens(args []string) int {
	if len(args) < 3 {
		return 2
	}
	base, tier := args[0], args[1]
	seed, _ := strconv.ParseUint(args[2], 10, 64)
	for i, files := range c18Projects(tier, seed) {
		dir := filepath.Join(base, fmt.Sprintf("p%d", i))
		for name, content := range files {
			p := filepath.Join(dir, name)
			_ = os.MkdirAll(filepath.Dir(p), 0o755)
			_ = os.WriteFile(p, []byte(content), 0o644)
		}
		var oo []core.Option
		var ee []directive.Enumeration
		for _, b := range c18BanFor(i) {
			e, _ := run.BanEnum(b)
			ee = append(ee, e)
		}
		oo = append(oo, core.WithBannedDirectives(ee...))
		_, _ = os.Stat(fmt.Sprintf("/VERIF-MARK/%d", i))
		res := func() (res string) {
			defer func() {
				if r := recover(); r != nil {
					res = "panic"
				}
			}()
			j, err := kit.NewJapi(filepath.Join(dir, "root.jst"), oo...)
			if err != nil {
				return "new_error " + err.Error()
			}
			if je := j.ValidateJAPI(); je != nil {
				return "rejected " + je.Msg
			}
			return "accepted"
		}()
		_, _ = os.Stat("/VERIF-MARK/end")
		fmt.Printf("%d\t%s\n", i, res)
	}
	return 0
}

func c18Post(d *fw.Driver) {
	if _, err := exec.LookPath("strace"); err != nil {
		d.AddInconclusive("strace not found: the 'no file is read' part did not run")
		return
	}
	base := filepath.Join(d.WorkDir, "c18-opens-base")
	_ = os.MkdirAll(base, 0o755)
	logf := filepath.Join(d.WorkDir, "c18-opens.strace")
	cmd := exec.Command("strace", "-f", "-qq", "-e", "trace=open,openat,readlink,readlinkat,stat,newfstatat,lstat,statx", "-o", logf,
		d.Self, "aux", "c18opens", base, d.Tier, strconv.FormatUint(d.Seed, 10))
	out, err := cmd.Output()
	if err != nil {
		d.AddInconclusive(fmt.Sprintf("strace run failed: %v %s", err, fw.Short(out, 300)))
		return
	}
	projects := c18Projects(d.Tier, d.Seed)
	results := map[int]string{}
	for _, l := range strings.Split(string(out), "\n") {
		if i := strings.IndexByte(l, '\t'); i > 0 {
			n, _ := strconv.Atoi(l[:i])
			results[n] = l[i+1:]
		}
	}
	for i := range projects {
		res := results[i]
		d.Count("opens_projects_run", 1)
		if !strings.HasPrefix(res, "rejected") || !c18NotAllowed(res) {
			d.AddViolation("banned-include-result:"+run.MsgTemplate(res), fmt.Sprintf("project %d with %v banned answered %q\nroot:\n%s", i, c18BanFor(i), res, projects[i]["root.jst"]), nil)
		}
	}
	f, err := os.Open(logf)
	if err != nil {
		d.AddInconclusive("strace log missing")
		return
	}
	defer f.Close()
	cur := -1
	sc := bufio.NewScanner(f)
	sc.Buffer(make([]byte, 1<<20), 1<<20)
	opens, rootOpens := 0, 0
	flagged := map[int]bool{}
	for sc.Scan() {
		m := straceLine.FindStringSubmatch(sc.Text())
		if m == nil {
			continue
		}
		call, path := m[2], m[3]
		if strings.HasPrefix(path, "/VERIF-MARK/") {
			v := strings.TrimPrefix(path, "/VERIF-MARK/")
			if v == "end" {
				cur = -2
			} else {
				cur, _ = strconv.Atoi(v)
			}
			continue
		}
		if cur < 0 || !filepath.IsAbs(path) {
			continue
		}
		clean := filepath.Clean(path)
		if !strings.HasPrefix(clean, base+"/") {
			continue
		}
		isOpen := strings.HasPrefix(call, "open") || strings.HasPrefix(call, "readlink")
		if !isOpen {
			d.Count("opens_stat_calls_in_project", 1)
			continue
		}
		opens++
		rel := strings.TrimPrefix(clean, filepath.Join(base, fmt.Sprintf("p%d", cur))+"/")
		if rel == "root.jst" {
			rootOpens++
			continue
		}
		if !flagged[cur] {
			flagged[cur] = true
			root := ""
			if cur < len(projects) {
				root = projects[cur]["root.jst"]
			}
			d.AddViolation("banned-include-file-opened", fmt.Sprintf("with %v banned the library called %s(%q) while validating project %d: a file named by a banned INCLUDE was read\nroot:\n%s", c18BanFor(cur), call, path, cur, root), nil)
		}
	}
	d.Count("opens_open_calls_seen", int64(opens))
	d.Count("opens_root_opens_seen", int64(rootOpens))
	if rootOpens < len(projects) {
		d.AddInconclusive(fmt.Sprintf("strace log shows %d opens of root files for %d projects: observer not working", rootOpens, len(projects)))
	}
	d.Distinct("banned-include-under-strace")
}

func kindOfSpan(k string) string {
	if len(k) == 3 && k[0] >= '1' && k[0] <= '5' {
		return "HTTP-response-code"
	}
	return k
}

// kindsInText lists the directive kinds that occur in a rendered text (keywords at the start of a line).
func kindsInText(text string) map[string]bool {
	out := map[string]bool{}
	for _, line := range strings.FieldsFunc(text, func(r rune) bool { return r == '\n' || r == '\r' }) {
		f := strings.Fields(line)
		if len(f) == 0 {
			continue
		}
		w := f[0]
		if i := strings.IndexByte(w, '#'); i > 0 {
			w = w[:i] // a comment glued to the keyword
		}
		for _, k := range c18AllKinds {
			if w == k {
				out[k] = true
			}
		}
		if len(w) == 3 && w[0] >= '1' && w[0] <= '5' && w[1] >= '0' && w[1] <= '9' && w[2] >= '0' && w[2] <= '9' {
			out["HTTP-response-code"] = true
		}
	}
	return out
}

func c18Eval(t *fw.T, c *fw.Case) {
	m, r := modelOf(c, gen.Options{MaxBlocks: 10, AllowAllOf: true})
	carrier := []string{"direct", "direct", "paste", "include"}[c.Index%4]
	var rd *gen.Rendered
	styled := false
	switch carrier {
	case "direct":
		if c.Index%8 == 1 {
			rd = gen.Render(m, gen.RandomStyle(r.Fork())) // CRLF/CR, comments, bare keywords after bare descriptions...
			styled = true                                 // (the span map is exact for the canonical rendering only)
		} else {
			rd = gen.Render(m, nil)
		}
	case "paste":
		plan := &pastePlan{seed: r.Uint64(), density: 3, maxDepth: 2, sites: map[string]int{}}
		rd = gen.RenderWith(m, gen.RenderOpts{Paste: plan.hook})
	case "include":
		plan := &cutPlan{seed: r.Uint64(), density: 3, maxDepth: 2}
		rd = gen.RenderWith(m, gen.RenderOpts{Paste: plan.hook})
	}
	files := map[string][]byte{"root.jst": []byte(rd.Text)}
	present := kindsInText(rd.Text)
	for k, v := range rd.Files {
		files[k] = []byte(v)
		for kk := range kindsInText(v) {
			present[kk] = true
		}
	}
	base := run.Doc{Files: files, Root: "root.jst", FixedSeed: true}
	ob := t.Exec(base)
	if ob.Outcome != run.Accepted {
		t.Count("base_not_accepted")
		return
	}
	// ban sets: one singleton chosen by index (all 30 are covered across cases), plus random sets
	var sets [][]string
	sets = append(sets, []string{c18AllKinds[(c.Index/4)%len(c18AllKinds)]})
	var pres []string
	for k := range present {
		pres = append(pres, k)
	}
	sort.Strings(pres)
	sets = append(sets, []string{pres[r.Intn(len(pres))]}) // a kind that does occur
	for k := 0; k < 2; k++ {
		n := r.Range(2, 8)
		var s []string
		for i := 0; i < n; i++ {
			s = append(s, c18AllKinds[r.Intn(len(c18AllKinds))])
		}
		sets = append(sets, s)
	}
	// a set of kinds that do not occur
	var absent []string
	for _, k := range c18AllKinds {
		if !present[k] {
			absent = append(absent, k)
		}
	}
	if len(absent) > 0 {
		sets = append(sets, absent)
	}
	for _, ban := range sets {
		d := base
		d.Ban = ban
		o := t.Exec(d)
		var hit []string
		for _, b := range ban {
			if present[b] {
				hit = append(hit, b)
			}
		}
		if len(hit) == 0 {
			t.Count("unaffected_checked")
			if o.Outcome != ob.Outcome || !bytes.Equal(o.JSON, ob.JSON) {
				c.Docs = []run.Doc{d}
				t.Violation("ban-changes-unrelated-project", fmt.Sprintf("banning %v (none of which occurs) changes the result: %s\n%s", ban, describe(o), rd.Text))
			} else {
				t.Distinct("none " + carrier)
			}
			continue
		}
		t.Count("banned_hits_checked")
		sort.Strings(hit)
		if o.Outcome != run.Rejected || !c18NotAllowed(o.Msg) {
			c.Docs = []run.Doc{d}
			t.Violation("ban-not-enforced:"+strings.Join(hit, "+")+":"+carrier, fmt.Sprintf("banned %v, the project contains %v (carrier %s), result: %s\n%s", ban, hit, carrier, describe(o), rd.Text))
			continue
		}
		// the diagnostic names a banned kind
		named := ""
		for _, b := range hit {
			if strings.Contains(o.Msg, "("+b+")") {
				named = b
			}
		}
		if named == "" {
			// the statement asks for a 'not allowed' diagnostic at the directive, not for a wording: when the message does
			// not name the kind the way it does today, only a message that names a kind which is *not* banned is wrong
			if m := c18KindInParens.FindStringSubmatch(o.Msg); m != nil {
				if _, err := run.BanEnum(m[1]); err == nil {
					c.Docs = []run.Doc{d}
					t.Violation("ban-names-other-kind", fmt.Sprintf("banned %v, present %v, but the diagnostic is %q", ban, hit, o.Msg))
					continue
				}
			}
			if carrier == "direct" && !styled {
				for _, s := range rd.Spans {
					for _, b := range hit {
						if kindOfSpan(s.Kind) == b && int(o.Index) >= s.Begin && int(o.Index) < s.End {
							named = b
						}
					}
				}
			}
			if named == "" {
				named = hit[0]
				if carrier == "direct" && !styled {
					c.Docs = []run.Doc{d}
					t.Violation("ban-located-elsewhere:"+named, fmt.Sprintf("banned %v: the diagnostic %q points to index %d (line %d, %q), not into a directive of a banned kind\n%s", ban, o.Msg, o.Index, o.Line, o.Quote, rd.Text))
					continue
				}
			}
		}
		if carrier == "direct" && !styled {
			inside := false
			for _, s := range rd.Spans {
				if kindOfSpan(s.Kind) == named && int(o.Index) >= s.Begin && int(o.Index) < s.End {
					inside = true
				}
			}
			if named == "JSIGHT" && o.Index < 10 {
				inside = true
			}
			if !inside {
				c.Docs = []run.Doc{d}
				t.Violation("ban-located-elsewhere:"+named, fmt.Sprintf("banned %v: the diagnostic %q points to index %d (line %d, %q), not into a %s directive\n%s", ban, o.Msg, o.Index, o.Line, o.Quote, named, rd.Text))
				continue
			}
		}
		t.Distinct(named + " " + carrier)
	}
	// a banned kind that occurs only in the body of a macro nobody pastes: it is written in the project all the same
	if carrier == "direct" {
		snippets := [][2]string{
			{"TYPE", "TYPE @zzUnusedT any"}, {"ENUM", "ENUM @zzUnusedE\n  [1, 2]"}, {"SERVER", "SERVER @zzUnusedS\n    BaseUrl \"https://zz/\""},
			{"Query", "Query\n  {\"q\": 1}"}, {"Headers", "Headers\n  {\"h\": \"v\"}"}, {"GET", "GET /zz/unused\n    200 any"}, {"DELETE", "DELETE /zz/unused\n    200 any"},
			{"Request", "Request any"}, {"Body", "Body any"}, {"HTTP-response-code", "200 any"}, {"Description", "Description\n    text"}, {"URL", "URL /zz/unusedurl"},
			{"BaseUrl", "BaseUrl \"https://zz/\""}, {"Title", "Title \"zz\""}, {"Path", "Path\n  {\"id\": 1}"}, {"INFO", "INFO\n    Title \"zz\""},
		}
		// larger bodies: the banned kind stands deep inside (after a URL block, under a method with its own path, in parentheses)
		deep := [][]string{
			{"URL /zz/u1\n    GET\n      200 any\n  POST /zz/u2\n    Request any\n    201 any", "Request", "POST", "URL"},
			{"URL /zz/u3\n  (\n    PUT\n    (\n      Query\n      {\"q\": 1}\n      200 any\n    )\n  )\n  DELETE /zz/u4\n    Description\n      text\n    204 empty", "Description", "DELETE", "Query", "PUT"},
			{"PATCH /zz/u5\n    Request\n      Headers\n      {\"h\": \"v\"}\n      Body any\n    200 any", "Headers", "Body", "PATCH", "Request"},
			{"URL /zz/rpc\n    Protocol json-rpc-2.0\n    Method zz\n      Params\n      {}\n      Result\n      {}", "Result", "Params", "Method", "Protocol"},
		}
		sn := snippets[(c.Index/4)%len(snippets)]
		if (c.Index/4)%3 == 2 {
			d := deep[(c.Index/12)%len(deep)]
			for _, k := range d[1:] {
				if !present[k] {
					sn = [2]string{k, d[0]}
					break
				}
			}
		}
		with := rd.Text + "MACRO @zzUnusedMacro\n(\n  " + sn[1] + "\n)\n"
		if c.Index%8 >= 4 { // the same macro, pasted at top level
			with += "PASTE @zzUnusedMacro\n"
			if sn[0] == "Query" || sn[0] == "Headers" || sn[0] == "Request" || sn[0] == "Body" || sn[0] == "HTTP-response-code" || sn[0] == "Description" || sn[0] == "BaseUrl" || sn[0] == "Title" || sn[0] == "Path" {
				if !strings.Contains(sn[1], "/zz/") {
					with = strings.TrimSuffix(with, "PASTE @zzUnusedMacro\n") // these cannot stand at top level
				}
			}
		}
		dm := run.Single([]byte(with))
		dm.FixedSeed = true
		if om := t.Exec(dm); om.Outcome == run.Accepted && !present[sn[0]] {
			dm.Ban = []string{sn[0]}
			o := t.Exec(dm)
			t.Count("banned_hits_checked")
			t.Count("banned_in_unpasted_macro_checked")
			if o.Outcome != run.Rejected || !c18NotAllowed(o.Msg) {
				c.Docs = []run.Doc{dm}
				t.Violation("ban-not-enforced:"+sn[0]+":unpasted-macro", fmt.Sprintf("banned %s occurs in the body of a macro that is never pasted, result: %s\n%s", sn[0], describe(o), with))
			} else {
				t.Distinct(sn[0] + " unpasted-macro")
			}
		}
	}
	// INCLUDE banned: the named file must not be read
	if carrier == "include" && len(rd.Files) > 0 && c.Index%8 == 3 {
		broken := run.Doc{Files: map[string][]byte{"root.jst": []byte(rd.Text)}, Root: "root.jst", Ban: []string{"INCLUDE"}, OnDisk: true}
		which := "missing"
		if r.Bool() {
			which = "broken"
			for k := range rd.Files {
				broken.Files[k] = []byte("!!! not a jsight file \x00\n")
			}
		}
		o := t.Exec(broken)
		t.Count("include_not_read_checked")
		if o.Outcome != run.Rejected || !c18NotAllowed(o.Msg) {
			c.Docs = []run.Doc{broken}
			t.Violation("banned-include-read:"+which, fmt.Sprintf("INCLUDE is banned and the included files are %s, yet the diagnostic is %s", which, describe(o)))
		}
	}
	t.Sample("bans/"+carrier, map[string]interface{}{"present": pres, "sets": sets})
	_ = xrand.New
}

// c18EvalReuse: one Option value is kept and given to several cores, alone and together with other options; what a core
// bans must depend on the options it was given, not on what other cores were given.
func c18EvalReuse(t *fw.T, c *fw.Case) {
	m, r := modelOf(c, gen.Options{MaxBlocks: 8})
	rd := gen.Render(m, nil)
	present := kindsInText(rd.Text)
	var pres, absent []string
	for _, k := range c18AllKinds {
		if present[k] {
			pres = append(pres, k)
		} else {
			absent = append(absent, k)
		}
	}
	if len(absent) == 0 || len(pres) < 2 {
		return
	}
	c.Docs = []run.Doc{run.Single([]byte(rd.Text))}
	x := absent[r.Intn(len(absent))] // kept option: bans a kind that does not occur
	y := pres[r.Intn(len(pres))]     // second option of the first core: bans a kind that does occur
	ex, _ := run.BanEnum(x)
	ey, _ := run.BanEnum(y)
	kept := core.WithBannedDirectives(ex)
	exec := func(oo ...core.Option) (string, string) {
		defer func() { _ = recover() }()
		j := kit.NewJApiFromFile(fs.NewFile(run.MemDir+"/root.jst", []byte(rd.Text)), oo...)
		if je := j.ValidateJAPI(); je != nil {
			return "rejected", je.Msg
		}
		return "accepted", ""
	}
	o0, _ := exec()
	if o0 != "accepted" {
		return
	}
	t.Count("executions")
	// first core: kept + another option; second core: kept alone
	o1, m1 := exec(kept, core.WithBannedDirectives(ey))
	o2, m2 := exec(kept)
	o3, m3 := exec(core.WithBannedDirectives(ey), kept)
	o4, m4 := exec(kept)
	t.Count("unaffected_checked")
	t.Count("option_reuse_sequences")
	if o1 != "rejected" || o3 != "rejected" {
		t.Violation("ban-not-enforced:reuse", fmt.Sprintf("banning %s (present) together with a kept option banning %s: %s %q / %s %q", y, x, o1, m1, o3, m3))
		return
	}
	if o2 != "accepted" || o4 != "accepted" {
		t.Violation("ban-leaks-between-cores", fmt.Sprintf("a kept option bans only %s (which does not occur); after another core was given it together with a ban of %s, a core given the kept option alone answers %s %q / %s %q\n%s", x, y, o2, m2, o4, m4, rd.Text))
		return
	}
	t.Distinct("reuse " + y)
}


// c18EvalAfterDescription: the directive that follows the free text of a description (every kind, every response-code
// class, LF/CRLF/CR) is banned: it is a directive of the project like any other and must be refused.
func c18EvalAfterDescription(t *fw.T, c *fw.Case) {
	host := c.Meta["host"]
	f := c15FollowersOf(host)[c.Ints["f"]]
	text := c15FollowTexts[c.Ints["t"]]
	nl := []string{"\n", "\r\n", "\r"}[c.Ints["nl"]]
	first := ""
	for _, l := range strings.Split(f.text, "\n") {
		if w := strings.Fields(l); len(w) > 0 {
			first = w[0]
			break
		}
	}
	kind := first
	if len(first) == 3 && first[0] >= '1' && first[0] <= '5' {
		kind = "HTTP-response-code"
	}
	if _, err := run.BanEnum(kind); err != nil {
		return
	}
	d := c15FollowDoc(host, f, text, nl)
	if o0 := t.Exec(d); o0.Outcome != run.Accepted {
		t.Count("after_description_template_not_accepted")
		return
	}
	d.Ban = []string{kind}
	c.Docs = []run.Doc{d}
	o := t.Exec(d)
	t.Count("banned_hits_checked")
	t.Count("banned_after_description_checked")
	if o.Outcome != run.Rejected || !c18NotAllowed(o.Msg) {
		t.Violation("ban-not-enforced:"+kind+":after-description", fmt.Sprintf("banned %s stands right after the text of a description (%s line ends), result: %s\n%q", kind, map[string]string{"\n": "LF", "\r\n": "CRLF", "\r": "CR"}[nl], describe(o), d.Files["root.jst"]))
		return
	}
	t.Distinct(kind + " after-description " + host)
}


var c18KindInParens = regexp.MustCompile(`\(([A-Za-z-]+)\)`)

// c18NotAllowed: the diagnostic says that something is not allowed (the statement's words; the exact wording is the
// library's own business).
func c18NotAllowed(msg string) bool {
	return strings.Contains(strings.ToLower(msg), "not allowed")
}

// ---- a banned one-line directive on the line after an annotation that is empty (or blank, or a comment) ----

// c18AfterAnn: {banned kind, the line in front (it may carry an annotation), the banned line, what follows}
var c18AfterAnn = [][4]string{
	{"Tags", "GET /cats", "  Tags @x", "  200 any\nTAG @x\n"},
	{"PASTE", "GET /cats", "  PASTE @m", "MACRO @m\n(\n  200 any\n)\n"},
	{"INCLUDE", "GET /cats", "  INCLUDE inc.jst", ""},
	{"BaseUrl", "SERVER @s", "  BaseUrl \"https://a/\"", ""},
	{"HTTP-response-code", "GET /cats", "  200 any", ""},
	{"Request", "POST /cats", "  Request any", "  200 any\n"},
	{"Version", "TYPE @t any", "INFO\n  Version 1", "  Title \"t\"\n"},
	{"TYPE", "ENUM @e", "[1]\nTYPE @t any", ""},
	{"Method", "URL /rpc", "  Protocol json-rpc-2.0\n  Method m", "    Params\n      {}\n"},
	{"Protocol", "URL /rpc", "  Protocol json-rpc-2.0", "  Method m\n    Params\n      {}\n"},
	{"TAG", "TAG @first", "TAG @second", ""},
	{"GET", "TYPE @t any", "GET /cats", "  200 any\n"},
}

func c18EvalAfterAnnotation(t *fw.T, c *fw.Case) {
	e := c18AfterAnn[c.Ints["k"]]
	ann := []string{" //", " /**/", " // ", " //\t# c"}[c.Ints["a"]]
	nl := []string{"\n", "\r\n", "\r"}[c.Ints["nl"]]
	text := "JSIGHT 0.3\n" + e[1] + ann + "\n" + e[2] + "\n" + e[3]
	text = strings.ReplaceAll(text, "\n", nl)
	d := run.Doc{Files: map[string][]byte{"root.jst": []byte(text), "inc.jst": []byte("  200 any" + nl)}, Root: "root.jst"}
	if o0 := t.Exec(d); o0.Outcome != run.Accepted {
		t.Count("after_annotation_template_not_accepted")
		t.Sample("after-annotation-template-not-accepted", map[string]interface{}{"doc": text, "result": describe(o0)})
		return
	}
	d.Ban = []string{e[0]}
	c.Docs = []run.Doc{d}
	o := t.Exec(d)
	t.Count("banned_hits_checked")
	t.Count("banned_after_empty_annotation_checked")
	if o.Outcome != run.Rejected || !c18NotAllowed(o.Msg) {
		t.Violation("ban-not-enforced:"+e[0]+":after-empty-annotation", fmt.Sprintf("banned %s stands on the line after an empty annotation (%q), result: %s\n%q", e[0], ann, describe(o), text))
		return
	}
	t.Distinct(e[0] + " after-empty-annotation")
}
