package checks

import (
	"bytes"
	"fmt"
	"strings"

	"verifharness/internal/fw"
	"verifharness/internal/gen"
	"verifharness/internal/jsonx"
	"verifharness/internal/run"
	"verifharness/internal/xrand"
)

func init() {
	fw.Register(&fw.Check{
		ID:    "C07",
		Level: "exploration",
		Rule: "metamorphic: a generated model is rendered twice with the same style - once with parts of it moved into macros (any run of complete top-level blocks or of complete children of INFO, SERVER, URL, a method, a request or a response that a MACRO admits; " +
			"macros pasting macros to the depth bound; definitions before or after use) and once with everything written in place; if the macro form is accepted the in-place form must be accepted with byte-identical catalog (and vice versa verdicts must agree); " +
			"an added never-pasted macro must change nothing; PASTE of an undefined macro, a second macro with one name, and every cyclic paste digraph on up to 3 (thorough: 4) macros - reachable or not from a top-level PASTE - must be rejected with a diagnostic, without panic, within the paste-depth budget. " +
			"distinct_nontrivial = distinct (paste sites by kind, nesting depth reached, outcome)",
		Assumptions: []string{
			"the twin is produced by the renderer from the same model, never by editing text",
			"TAG, Tags, Protocol, Method, Params and Result cannot stand directly in a MACRO (language rule) and are never extracted on their own",
		},
		Families: []fw.Family{
			{Name: "inline", N: constN(5000, 150000), Gen: genModelCase, Eval: c07EvalInline},
			{Name: "cycles", Stream: c07StreamCycles, Eval: c07EvalReject},
			{Name: "faults", N: constN(600, 20000), Gen: genModelCase, Eval: c07EvalFaults},
		},
		Floors: map[string]int64{"twins_compared": 3000, "cyclic_graphs": 300},
	})
}

var c07Opt = gen.Options{MaxBlocks: 12, AllowAllOf: true, DeepAllOf: true}

// pastePlan decides which elements go to which macro: a deterministic function of the label (so both renderings agree).
type pastePlan struct {
	seed     uint64
	density  int // 1/density of the eligible elements are extracted
	maxDepth int
	nmacros  int
	sites    map[string]int
	depthMax int
}

func (p *pastePlan) hook(label, kind string, depth int) string {
	if depth >= p.maxDepth {
		return ""
	}
	h := xrand.HashStr(fmt.Sprintf("%d|%s", p.seed, parentOf(label)))
	// siblings share the decision of their parent region so that runs of consecutive elements go to one macro
	h2 := xrand.HashStr(fmt.Sprintf("%d|%s", p.seed, label))
	if int(h2%uint64(p.density)) != 0 && int(h%uint64(p.density*2)) != 0 {
		return ""
	}
	p.sites[kind]++
	if depth+1 > p.depthMax {
		p.depthMax = depth + 1
	}
	return "macro"
}

func parentOf(label string) string {
	if i := strings.LastIndex(label, "/"); i > 0 {
		return label[:i]
	}
	return "top"
}

func c07EvalInline(t *fw.T, c *fw.Case) {
	m, r := modelOf(c, c07Opt)
	st := gen.RandomStyle(r.Fork())
	st.Parens = []int{0, 0, 3}[r.Intn(3)]
	stCopy := *st
	plan := &pastePlan{seed: r.Uint64(), density: r.Range(2, 5), maxDepth: t.Pick(3, 6), nmacros: r.Range(1, 6), sites: map[string]int{}}
	macrosFirst := r.Bool()
	// the two renderings must draw the same style decisions: give each its own copy of one PRNG state
	ss := r.Uint64()
	st.R = xrand.New(ss)
	withMacros := gen.RenderWith(m, gen.RenderOpts{Style: st, Paste: plan.hook, MacrosFirst: macrosFirst})
	stCopy.R = xrand.New(ss)
	inPlace := gen.RenderWith(m, gen.RenderOpts{Style: &stCopy})
	if !strings.Contains(withMacros.Text, "PASTE") {
		t.Count("no_paste_site")
		return
	}
	dm := run.Single([]byte(withMacros.Text))
	dm.FixedSeed = true
	di := run.Single([]byte(inPlace.Text))
	di.FixedSeed = true
	c.Docs = []run.Doc{dm, di}
	om := t.Exec(dm)
	oi := t.Exec(di)
	t.Count("twins_compared")
	sites := ""
	for _, k := range []string{"TYPE", "ENUM", "SERVER", "INFO", "URL", "GET", "POST", "PUT", "PATCH", "DELETE", "Request", "response", "Headers", "Body", "Path", "Query", "Description", "Title", "Version", "BaseUrl"} {
		if plan.sites[k] > 0 {
			sites += k + " "
		}
	}
	if om.Outcome == run.Panic || om.Outcome == run.Budget {
		t.Violation("macro-form-crashes:"+outcomeSig(om), fmt.Sprintf("the macro form %s: %s\n%s", om.Outcome, om.PanicVal, withMacros.Text))
		return
	}
	if om.Outcome != oi.Outcome {
		t.Violation("verdict-differs:"+om.Outcome+"-vs-"+oi.Outcome+":"+rejMsg(om, oi), fmt.Sprintf("macro form: %s\nin-place form: %s\n--- macro form\n%s\n--- in-place form\n%s", describe(om), describe(oi), withMacros.Text, inPlace.Text))
		return
	}
	if om.Outcome == run.Accepted && !bytes.Equal(om.JSON, oi.JSON) {
		where := ""
		a, e1 := jsonx.Parse(om.JSON)
		b, e2 := jsonx.Parse(oi.JSON)
		cls := "?"
		if e1 == nil && e2 == nil {
			d := jsonx.Diff(a.Root, b.Root, "$")
			where = d
			cls = diffClass(d)
		}
		t.Violation("catalog-differs:"+cls, fmt.Sprintf("pasting differs from writing the body in place: %s\n--- macro form\n%s\n--- in-place form\n%s", where, withMacros.Text, inPlace.Text))
		return
	}
	t.Count("twins_" + om.Outcome)
	if om.Outcome == run.Rejected {
		t.Sample("twins-both-rejected", map[string]interface{}{"msg": oi.Msg, "in_place": inPlace.Text})
	}
	t.Distinct(fmt.Sprintf("%s| depth%d %s", sites, plan.depthMax, om.Outcome))
	t.Sample("twins", map[string]interface{}{"macro_form": withMacros.Text, "outcome": om.Outcome, "paste_depth_max": om.PasteDepthMax})
	// a never-pasted macro contributes nothing
	if om.Outcome == run.Accepted && r.Chance(1, 2) {
		extra := withMacros.Text + "MACRO @neverPasted\n(\n  TYPE @neverPastedType\n  {\"a\": 1}\n  ENUM @neverPastedEnum\n  [1]\n  GET /never/pasted\n    200 any\n)\n"
		if macrosFirst {
			extra = strings.Replace(withMacros.Text, "JSIGHT 0.3\n", "JSIGHT 0.3\nMACRO @neverPasted\n(\n  TYPE @neverPastedType\n  {\"a\": 1}\n  GET /never/pasted\n    200 any\n)\n", 1)
		}
		if st.Newline != "\n" && st.Newline != "" {
			extra = strings.ReplaceAll(strings.ReplaceAll(extra, st.Newline, "\n"), "\n", st.Newline)
		}
		de := run.Single([]byte(extra))
		de.FixedSeed = true
		oe := t.Exec(de)
		t.Count("unused_macro_checked")
		if oe.Outcome != run.Accepted || !bytes.Equal(oe.JSON, om.JSON) {
			c.Docs = []run.Doc{dm, de}
			t.Violation("unused-macro-contributes", fmt.Sprintf("adding a macro that is never pasted changes the result: %s\n%s", describe(oe), extra))
		}
	}
}

func rejMsg(a, b *run.Obs) string {
	if a.Outcome == run.Rejected {
		return run.MsgTemplate(a.Msg)
	}
	if b.Outcome == run.Rejected {
		return run.MsgTemplate(b.Msg)
	}
	return ""
}

// ---- cycles, undefined and duplicate macros ----

func c07StreamCycles(t *fw.T, shard, nshards int, emit func(*fw.Case)) {
	n := 0
	maxM := t.Pick(3, 4)
	sites := append([]string{"none"}, pasteSites...)
	for nm := 1; nm <= maxM; nm++ {
		total := 1
		for i := 0; i < nm; i++ {
			total *= 1 << nm
		}
		for g := 0; g < total; g++ {
			edges := make([]int, nm)
			x := g
			for i := 0; i < nm; i++ {
				edges[i] = x & (1<<nm - 1)
				x >>= nm
			}
			if !hasCycle(nm, edges) {
				continue
			}
			for si, site := range sites {
				if nm == 4 && (g+si)%4 != 0 {
					continue
				}
				n++
				if n%nshards != shard {
					emit(nil)
					continue
				}
				kinds := make([]int, nm)
				for i := range kinds {
					kinds[i] = (g + si + i) % 6
				}
				c := oneDocCase([]byte(macroDoc(nm, edges, site, kinds)), "", fmt.Sprintf("cyclic paste graph n=%d edges=%v site=%s", nm, edges, site))
				c.Meta = map[string]string{"expect": "recursion"}
				emit(c)
			}
		}
	}
}

func hasCycle(n int, edges []int) bool {
	color := make([]int, n)
	var dfs func(u int) bool
	dfs = func(u int) bool {
		color[u] = 1
		for v := 0; v < n; v++ {
			if edges[u]&(1<<v) != 0 {
				if color[v] == 1 {
					return true
				}
				if color[v] == 0 && dfs(v) {
					return true
				}
			}
		}
		color[u] = 2
		return false
	}
	for u := 0; u < n; u++ {
		if color[u] == 0 && dfs(u) {
			return true
		}
	}
	return false
}

func c07EvalReject(t *fw.T, c *fw.Case) {
	d := c.Docs[0]
	o := t.Exec(d)
	t.Count("cyclic_graphs")
	switch o.Outcome {
	case run.Rejected:
		if run.RuntimeFaultText(o.ErrText) {
			t.Violation("cycle-runtime-fault", fmt.Sprintf("%s; input %s", describe(o), fw.Short(d.Files[d.Root], 500)))
		}
		t.Distinct("cycle rejected:" + run.MsgTemplate(o.Msg))
	case run.Accepted:
		t.Violation("cycle-accepted", fmt.Sprintf("a document whose macros paste one another in a cycle is accepted (%s); input %s", c.Note, fw.Short(d.Files[d.Root], 600)))
	default:
		t.Violation("cycle-"+o.Outcome, fmt.Sprintf("a cyclic paste graph is not rejected with a diagnostic but ends as %s %s (%s); input %s", o.Outcome, o.PanicVal, c.Note, fw.Short(d.Files[d.Root], 600)))
	}
}

func c07EvalFaults(t *fw.T, c *fw.Case) {
	m, r := modelOf(c, c07Opt)
	plan := &pastePlan{seed: r.Uint64(), density: 2, maxDepth: 2, nmacros: 3, sites: map[string]int{}}
	rd := gen.RenderWith(m, gen.RenderOpts{Paste: plan.hook, MacrosFirst: r.Bool()})
	text := rd.Text
	kind := ""
	switch r.Intn(3) {
	case 0: // PASTE of an undefined macro
		kind = "undefined-macro"
		if strings.Contains(text, "PASTE @mac") && r.Bool() {
			// rename one definition so that its pastes dangle
			i := strings.Index(text, "MACRO @mac")
			if i >= 0 {
				text = text[:i] + "MACRO @renamed" + text[i+len("MACRO @mac"):]
			}
		} else {
			text += "PASTE @noSuchMacro\n"
		}
	case 1: // a second macro with the same name
		kind = "duplicate-macro"
		text += "MACRO @dupMacro\n(\n  TYPE @dm1\n  1\n)\nMACRO @dupMacro\n(\n  TYPE @dm2\n  2\n)\n"
		if r.Bool() {
			text += "PASTE @dupMacro\n"
		}
	default: // PASTE without a name / with an annotation
		kind = "paste-without-name"
		text += "PASTE\n"
	}
	d := run.Single([]byte(text))
	c.Docs = []run.Doc{d}
	o := t.Exec(d)
	t.Count("macro_faults_checked")
	if o.Outcome != run.Rejected {
		t.Violation("macro-fault-not-rejected:"+kind+":"+o.Outcome, fmt.Sprintf("fault %s: %s\n%s", kind, describe(o), text))
		return
	}
	if run.RuntimeFaultText(o.ErrText) {
		t.Violation("macro-fault-runtime:"+kind, describe(o))
	}
	t.Distinct("fault " + kind + " " + run.MsgTemplate(o.Msg))
}
