package checks

import (
	"bytes"
	"fmt"
	"regexp"
	"strconv"
	"strings"

	"github.com/jsightapi/jsight-api-go-library/directive"
	"verifharness/internal/resolver"

	"verifharness/internal/fw"
	"verifharness/internal/gen"
	"verifharness/internal/jsonx"
	"verifharness/internal/run"
	"verifharness/internal/xrand"
)

func init() {
	fw.Register(&fw.Check{
		ID:    "C07",
		Level: "exploration",
		Rule: "metamorphic: a generated model is rendered twice with the same style - once with parts of it moved into macros (any run of complete top-level blocks or of complete children of INFO, SERVER, URL, a method, a request or a response that a MACRO admits; " +
			"macros pasting macros to the depth bound; definitions before or after use) and once with everything written in place; if the macro form is accepted the in-place form must be accepted with byte-identical catalog (a macro form that is refused while its expansion is accepted is outside the statement: counted, not judged); " +
			"a second twin family takes sequences of directive kinds with parentheses (macro body and host grown at random, any order of children the language admits, PASTE at any depth, pasted once or twice) and compares the macro form with the text obtained by writing the body in place of every PASTE and deleting the definition; " +
			"an added never-pasted macro must change nothing; PASTE of an undefined macro, a second macro with one name, and every cyclic paste digraph on up to 3 (thorough: 4) macros - reachable or not from a top-level PASTE - must be rejected with a diagnostic, without panic, within the paste-depth budget. " +
			"distinct_nontrivial = distinct (paste sites by kind, nesting depth reached, outcome)",
		Assumptions: []string{
			"the twin is produced by the renderer from the same model, never by editing text",
			"TAG, Tags, Protocol, Method, Params and Result cannot stand directly in a MACRO (language rule) and are never extracted on their own",
		},
		Families: []fw.Family{
			{Name: "inline", N: constN(5000, 150000), Gen: genModelCase, Eval: c07EvalInline},
			{Name: "cycles", Stream: c07StreamCycles, Eval: c07EvalReject},
			{Name: "faults", N: constN(600, 20000), Gen: genModelCase, Eval: c07EvalFaults},
			{Name: "skeleton-twins", N: constN(30000, 900000), Gen: c07GenSkeleton, Eval: c07EvalSkeleton},
			{Name: "unused-macro-anywhere", N: constN(1500, 50000), Gen: genModelCase, Eval: c07EvalUnusedAnywhere},
			{Name: "arranged-twins", N: func(string) int { return len(c07Arranged()) }, Gen: func(r *xrand.Rand, idx int, tier string) *fw.Case {
				return &fw.Case{Ints: map[string]int{"i": idx}, Docs: []run.Doc{{}}}
			}, Eval: c07EvalArranged},
		},
		Floors: map[string]int64{"twins_compared": 3000, "cyclic_graphs": 300},
	})
}

var c07Opt = gen.Options{MaxBlocks: 12, AllowAllOf: true, DeepAllOf: true}

// pastePlan decides which elements go to which macro: a deterministic function of the label (so both renderings agree).
type pastePlan struct {
	seed     uint64
	density  int // 1/density of the eligible elements are extracted
	maxDepth int
	nmacros  int
	sites    map[string]int
	depthMax int
}

func (p *pastePlan) hook(label, kind string, depth int) string {
	if depth >= p.maxDepth {
		return ""
	}
	h := xrand.HashStr(fmt.Sprintf("%d|%s", p.seed, parentOf(label)))
	// siblings share the decision of their parent region so that runs of consecutive elements go to one macro
	h2 := xrand.HashStr(fmt.Sprintf("%d|%s", p.seed, label))
	if int(h2%uint64(p.density)) != 0 && int(h%uint64(p.density*2)) != 0 {
		return ""
	}
	p.sites[kind]++
	if depth+1 > p.depthMax {
		p.depthMax = depth + 1
	}
	return "macro"
}

func parentOf(label string) string {
	if i := strings.LastIndex(label, "/"); i > 0 {
		return label[:i]
	}
	return "top"
}

func c07EvalInline(t *fw.T, c *fw.Case) {
	m, r := modelOf(c, c07Opt)
	st := gen.RandomStyle(r.Fork())
	st.Parens = []int{0, 0, 3}[r.Intn(3)]
	stCopy := *st
	plan := &pastePlan{seed: r.Uint64(), density: r.Range(2, 5), maxDepth: t.Pick(3, 6), nmacros: r.Range(1, 6), sites: map[string]int{}}
	macrosFirst := r.Bool()
	// the two renderings must draw the same style decisions: give each its own copy of one PRNG state
	ss := r.Uint64()
	st.R = xrand.New(ss)
	withMacros := gen.RenderWith(m, gen.RenderOpts{Style: st, Paste: plan.hook, MacrosFirst: macrosFirst})
	stCopy.R = xrand.New(ss)
	inPlace := gen.RenderWith(m, gen.RenderOpts{Style: &stCopy})
	if !strings.Contains(withMacros.Text, "PASTE") {
		t.Count("no_paste_site")
		return
	}
	dm := run.Single([]byte(withMacros.Text))
	dm.FixedSeed = true
	di := run.Single([]byte(inPlace.Text))
	di.FixedSeed = true
	c.Docs = []run.Doc{dm, di}
	om := t.Exec(dm)
	oi := t.Exec(di)
	t.Count("twins_compared")
	sites := ""
	for _, k := range []string{"TYPE", "ENUM", "SERVER", "INFO", "URL", "GET", "POST", "PUT", "PATCH", "DELETE", "Request", "response", "Headers", "Body", "Path", "Query", "Description", "Title", "Version", "BaseUrl"} {
		if plan.sites[k] > 0 {
			sites += k + " "
		}
	}
	if om.Outcome == run.Panic || om.Outcome == run.Budget {
		t.Violation("macro-form-crashes:"+outcomeSig(om), fmt.Sprintf("the macro form %s: %s\n%s", om.Outcome, om.PanicVal, withMacros.Text))
		return
	}
	if om.Outcome == run.Rejected && oi.Outcome == run.Accepted && !run.RuntimeFaultText(om.ErrText) {
		// The statement is conditional on the macro form being accepted: a macro form that is refused while its
		// expansion is fine is outside what C07 promises. Counted and sampled, not judged.
		t.Count("macro_form_rejected_expansion_accepted_not_judged")
		t.Sample("macro-form-rejected-only", map[string]interface{}{"msg": om.Msg, "macro_form": withMacros.Text})
		return
	}
	if om.Outcome != oi.Outcome {
		t.Violation("verdict-differs:"+om.Outcome+"-vs-"+oi.Outcome+":"+rejMsg(om, oi), fmt.Sprintf("macro form: %s\nin-place form: %s\n--- macro form\n%s\n--- in-place form\n%s", describe(om), describe(oi), withMacros.Text, inPlace.Text))
		return
	}
	if om.Outcome == run.Accepted && !bytes.Equal(om.JSON, oi.JSON) {
		where := ""
		a, e1 := jsonx.Parse(om.JSON)
		b, e2 := jsonx.Parse(oi.JSON)
		cls := "?"
		if e1 == nil && e2 == nil {
			d := jsonx.Diff(a.Root, b.Root, "$")
			where = d
			cls = diffClass(d)
		}
		t.Violation("catalog-differs:"+cls, fmt.Sprintf("pasting differs from writing the body in place: %s\n--- macro form\n%s\n--- in-place form\n%s", where, withMacros.Text, inPlace.Text))
		return
	}
	t.Count("twins_" + om.Outcome)
	if om.Outcome == run.Rejected {
		t.Sample("twins-both-rejected", map[string]interface{}{"msg": oi.Msg, "in_place": inPlace.Text})
	}
	t.Distinct(fmt.Sprintf("%s| depth%d %s", sites, plan.depthMax, om.Outcome))
	t.Sample("twins", map[string]interface{}{"macro_form": withMacros.Text, "outcome": om.Outcome, "paste_depth_max": om.PasteDepthMax})
	// a never-pasted macro contributes nothing
	if om.Outcome == run.Accepted && r.Chance(1, 2) {
		extra := withMacros.Text + "MACRO @neverPasted\n(\n  TYPE @neverPastedType\n  {\"a\": 1}\n  ENUM @neverPastedEnum\n  [1]\n  GET /never/pasted\n    200 any\n)\n"
		if macrosFirst {
			extra = strings.Replace(withMacros.Text, "JSIGHT 0.3\n", "JSIGHT 0.3\nMACRO @neverPasted\n(\n  TYPE @neverPastedType\n  {\"a\": 1}\n  GET /never/pasted\n    200 any\n)\n", 1)
		}
		if st.Newline != "\n" && st.Newline != "" {
			extra = strings.ReplaceAll(strings.ReplaceAll(extra, st.Newline, "\n"), "\n", st.Newline)
		}
		de := run.Single([]byte(extra))
		de.FixedSeed = true
		oe := t.Exec(de)
		t.Count("unused_macro_checked")
		if oe.Outcome != run.Accepted || !bytes.Equal(oe.JSON, om.JSON) {
			c.Docs = []run.Doc{dm, de}
			t.Violation("unused-macro-contributes", fmt.Sprintf("adding a macro that is never pasted changes the result: %s\n%s", describe(oe), extra))
		}
	}
}

func rejMsg(a, b *run.Obs) string {
	if a.Outcome == run.Rejected {
		return run.MsgTemplate(a.Msg)
	}
	if b.Outcome == run.Rejected {
		return run.MsgTemplate(b.Msg)
	}
	return ""
}

// ---- cycles, undefined and duplicate macros ----

func c07StreamCycles(t *fw.T, shard, nshards int, emit func(*fw.Case)) {
	n := 0
	maxM := t.Pick(3, 4)
	sites := append([]string{"none"}, pasteSites...)
	for nm := 1; nm <= maxM; nm++ {
		total := 1
		for i := 0; i < nm; i++ {
			total *= 1 << nm
		}
		for g := 0; g < total; g++ {
			edges := make([]int, nm)
			x := g
			for i := 0; i < nm; i++ {
				edges[i] = x & (1<<nm - 1)
				x >>= nm
			}
			if !hasCycle(nm, edges) {
				continue
			}
			for si, site := range sites {
				if nm == 4 && (g+si)%4 != 0 {
					continue
				}
				n++
				if n%nshards != shard {
					emit(nil)
					continue
				}
				kinds := make([]int, nm)
				for i := range kinds {
					kinds[i] = (g + si + i) % 6
				}
				text := macroDoc(nm, edges, site, kinds)
				c := oneDocCase([]byte(text), "", fmt.Sprintf("cyclic paste graph n=%d edges=%v site=%s", nm, edges, site))
				c.Meta = map[string]string{"expect": "recursion"}
				emit(c)
				if site == "none" {
					// a file of macro definitions only - no JSIGHT, nothing else (a library meant to be included)
					if i := strings.Index(text, "MACRO "); i >= 0 {
						only := text[i:]
						if j := strings.Index(only, "\nJSIGHT"); j < 0 && !strings.Contains(only, "\nGET ") && !strings.Contains(only, "\nTYPE ") {
							c2 := oneDocCase([]byte(only), "", fmt.Sprintf("cyclic paste graph n=%d edges=%v, macros only", nm, edges))
							c2.Meta = map[string]string{"expect": "recursion"}
							emit(c2)
						}
					}
				}
			}
		}
	}
}

func hasCycle(n int, edges []int) bool {
	color := make([]int, n)
	var dfs func(u int) bool
	dfs = func(u int) bool {
		color[u] = 1
		for v := 0; v < n; v++ {
			if edges[u]&(1<<v) != 0 {
				if color[v] == 1 {
					return true
				}
				if color[v] == 0 && dfs(v) {
					return true
				}
			}
		}
		color[u] = 2
		return false
	}
	for u := 0; u < n; u++ {
		if color[u] == 0 && dfs(u) {
			return true
		}
	}
	return false
}

func c07EvalReject(t *fw.T, c *fw.Case) {
	d := c.Docs[0]
	o := t.Exec(d)
	t.Count("cyclic_graphs")
	switch o.Outcome {
	case run.Rejected:
		if run.RuntimeFaultText(o.ErrText) {
			t.Violation("cycle-runtime-fault", fmt.Sprintf("%s; input %s", describe(o), fw.Short(d.Files[d.Root], 500)))
		}
		t.Distinct("cycle rejected:" + run.MsgTemplate(o.Msg))
	case run.Accepted:
		t.Violation("cycle-accepted", fmt.Sprintf("a document whose macros paste one another in a cycle is accepted (%s); input %s", c.Note, fw.Short(d.Files[d.Root], 600)))
	default:
		t.Violation("cycle-"+o.Outcome, fmt.Sprintf("a cyclic paste graph is not rejected with a diagnostic but ends as %s %s (%s); input %s", o.Outcome, o.PanicVal, c.Note, fw.Short(d.Files[d.Root], 600)))
	}
}

func c07EvalFaults(t *fw.T, c *fw.Case) {
	m, r := modelOf(c, c07Opt)
	plan := &pastePlan{seed: r.Uint64(), density: 2, maxDepth: 2, nmacros: 3, sites: map[string]int{}}
	rd := gen.RenderWith(m, gen.RenderOpts{Paste: plan.hook, MacrosFirst: r.Bool()})
	text := rd.Text
	kind := ""
	switch r.Intn(3) {
	case 0: // PASTE of an undefined macro
		kind = "undefined-macro"
		if strings.Contains(text, "PASTE @mac") && r.Bool() {
			// rename one definition so that its pastes dangle
			i := strings.Index(text, "MACRO @mac")
			if i >= 0 {
				text = text[:i] + "MACRO @renamed" + text[i+len("MACRO @mac"):]
			}
		} else {
			text += "PASTE @noSuchMacro\n"
		}
	case 1: // a second macro with the same name
		kind = "duplicate-macro"
		text += "MACRO @dupMacro\n(\n  TYPE @dm1\n  1\n)\nMACRO @dupMacro\n(\n  TYPE @dm2\n  2\n)\n"
		if r.Bool() {
			text += "PASTE @dupMacro\n"
		}
	default: // PASTE without a name / with an annotation
		kind = "paste-without-name"
		text += "PASTE\n"
	}
	d := run.Single([]byte(text))
	c.Docs = []run.Doc{d}
	o := t.Exec(d)
	t.Count("macro_faults_checked")
	if o.Outcome != run.Rejected {
		t.Violation("macro-fault-not-rejected:"+kind+":"+o.Outcome, fmt.Sprintf("fault %s: %s\n%s", kind, describe(o), text))
		return
	}
	if run.RuntimeFaultText(o.ErrText) {
		t.Violation("macro-fault-runtime:"+kind, describe(o))
	}
	t.Distinct("fault " + kind + " " + run.MsgTemplate(o.Msg))
}


// ---- skeleton twins: directive-kind sequences, the body written in place by text substitution ----

func c07RenderSkeleton(body, host []int, macroFirst, sharePaths bool, newline string) (macroForm, inPlace string) {
	u := 1000
	renderSeq := func(seq []int, indent string, paste string) string {
		var sb strings.Builder
		for _, s := range seq {
			switch s {
			case -1:
				sb.WriteString(indent + "(\n")
			case -2:
				sb.WriteString(indent + ")\n")
			case -3:
				sb.WriteString(paste)
			default:
				u++
				t := c06Spellings[s].text
				n := strings.Count(t, "%d")
				args := make([]interface{}, n)
				for i := range args {
					args[i] = u
				}
				sb.WriteString(indent + fmt.Sprintf(t, args...) + "\n")
			}
		}
		return sb.String()
	}
	b := renderSeq(body, "  ", "")
	macro := "MACRO @mac\n(\n" + b + ")\n"
	u0 := u
	h := renderSeq(host, "", "PASTE @mac\n")
	u = u0
	hi := renderSeq(host, "", b)
	// make Tags and Path usable: one declared tag for every Tags directive, an {id} parameter on every path
	fix := func(t string) string {
		t = c07TagsRe.ReplaceAllString(t, "Tags @gfix")
		if sharePaths { // few distinct paths: several hosts define the same parameterised prefix
			t = c07PathNumRe.ReplaceAllStringFunc(t, func(m string) string {
				n, _ := strconv.Atoi(m[2:])
				return m[:2] + fmt.Sprint(n%2)
			})
		}
		t = c07PathRe.ReplaceAllString(t, "$1/{id}")
		t = c07TextRe.ReplaceAllString(t, "  text $1\n    second line $1\n\n  last line $1")
		t = "JSIGHT 0.3\nTAG @gfix\n" + t
		if newline != "\n" {
			t = strings.ReplaceAll(t, "\n", newline)
		}
		return t
	}
	if macroFirst {
		return fix(macro + h), fix(hi)
	}
	return fix(h + macro), fix(hi)
}

var (
	c07TagsRe    = regexp.MustCompile(`Tags @g\d+`)
	c07PathNumRe = regexp.MustCompile(`/[ug]\d+`)
	c07TextRe    = regexp.MustCompile(`  text (\d+)`)
	c07PathRe = regexp.MustCompile(`((?:URL|GET|POST|PUT|PATCH|DELETE) /[ug]\d+)`)
)

func c07EvalSkeleton(t *fw.T, c *fw.Case) {
	body, host := decodeSeq(c.Meta["body"]), decodeSeq(c.Meta["host"])
	mf, ip := c07RenderSkeleton(body, host, c.Meta["macro_first"] == "true", c.Index%2 == 1, []string{"\n", "\n", "\r\n", "\n", "\n", "\r"}[c.Index%6])
	dm := run.Single([]byte(mf))
	dm.FixedSeed = true
	di := run.Single([]byte(ip))
	di.FixedSeed = true
	c.Docs = []run.Doc{dm, di}
	om := t.Exec(dm)
	if om.Outcome == run.Panic || om.Outcome == run.Budget {
		t.Violation("macro-form-crashes:"+outcomeSig(om), fmt.Sprintf("the macro form %s: %s\n%s", om.Outcome, om.PanicVal, mf))
		return
	}
	t.Count("skeleton_macro_forms_run")
	if om.Outcome != run.Accepted {
		t.Count("skeleton_macro_form_rejected")
		t.Count("skeleton_rej:" + run.MsgTemplate(om.Msg))
		t.Sample("skeleton-rejected/"+run.MsgTemplate(om.Msg), map[string]interface{}{"macro_form": mf, "result": describe(om)})
		return
	}
	oi := t.Exec(di)
	t.Count("twins_compared")
	t.Count("skeleton_twins_compared")
	if oi.Outcome != run.Accepted {
		t.Violation("verdict-differs:accepted-vs-"+oi.Outcome+":"+run.MsgTemplate(oi.Msg), fmt.Sprintf("the macro form is accepted, the body written in place is not: %s\n--- macro form\n%s\n--- in-place form\n%s", describe(oi), mf, ip))
		return
	}
	if !bytes.Equal(om.JSON, oi.JSON) {
		where, cls := "", "?"
		a, e1 := jsonx.Parse(om.JSON)
		b, e2 := jsonx.Parse(oi.JSON)
		if e1 == nil && e2 == nil {
			where = jsonx.Diff(a.Root, b.Root, "$")
			cls = diffClass(where)
		}
		t.Violation("catalog-differs:"+cls, fmt.Sprintf("pasting differs from writing the body in place: %s\n--- macro form\n%s\n--- in-place form\n%s", where, mf, ip))
		return
	}
	t.Distinct("skeleton " + c.Meta["body"])
	t.Sample("skeleton-twins", map[string]interface{}{"macro_form": mf})
}


// c07GenSkeleton grows a macro body and a host sequence one item at a time; an item is kept only while the reference
// resolver still finds a place for everything in the host WITH THE BODY WRITTEN IN PLACE of each PASTE, so that most
// expansions get past context resolution and many documents are accepted as a whole.
func c07GenSkeleton(r *xrand.Rand, idx int, tier string) *fw.Case {
	macroKinds := []int{19, 20, 22, 23, 24, 25, 20, 19, 22, 18, 2, 3, 6, 13, 15, 4, 33, 21}
	hostKinds := []int{7, 13, 14, 16, 19, 20, 20, 5, 24, 22, 18, 23, 25, 17, 33, 33, 21, 21, 9}
	var body []int
	// every third case treats PASTE as opaque while growing: the body only has to fit into a MACRO, so that written in
	// place it is usually NOT resolvable - the library must then refuse the macro form too (accepting it is the violation)
	opaque := idx%3 == 2
	evOf := func(seq []int, inMacro bool) []resolver.Event {
		var ev []resolver.Event
		if inMacro {
			ev = append(ev, resolver.Event{Type: resolver.EvDirective, Kind: directive.Macro}, resolver.Event{Type: resolver.EvOpen})
		}
		var add func(seq []int, expand bool)
		add = func(seq []int, expand bool) {
			for _, s := range seq {
				switch s {
				case -1:
					ev = append(ev, resolver.Event{Type: resolver.EvOpen})
				case -2:
					ev = append(ev, resolver.Event{Type: resolver.EvClose})
				case -3:
					if expand {
						add(body, false)
					}
				default:
					ev = append(ev, resolver.Event{Type: resolver.EvDirective, Kind: c06Spellings[s].kind, HasPath: c06Spellings[s].hasPath})
				}
			}
		}
		add(seq, !inMacro && !opaque)
		return ev
	}
	okSoFar := func(seq []int, inMacro bool) bool {
		_, rej := resolver.Resolve(evOf(seq, inMacro))
		return rej == resolver.OK || rej == resolver.UnclosedContext
	}
	prefixes := [][]int{{}, {7}, {7, 8}, {13}, {14, 19}, {13, 20}, {1}, {5}, {7, 9, 20}, {14}}
	prefix := prefixes[r.Intn(len(prefixes))]
	if len(prefix) > 0 && prefix[0] == 7 { // inside a URL block path-less methods make sense
		macroKinds = append(macroKinds, 8, 9, 10, 12)
	}
	maxPastes := 1
	if r.Chance(1, 4) {
		maxPastes = 2
	}
	grow := func(start []int, kinds []int, n int, inMacro bool) []int {
		seq := append([]int{}, start...)
		open, pastes := 0, 0
		for _, x := range start {
			if x == -3 {
				pastes++
			}
		}
		ok := func(cand []int) bool {
			if inMacro {
				// the body must fit both in a MACRO and, written in place, behind the chosen prefix
				return okSoFar(cand, true) && (opaque || okSoFar(append(append([]int{}, prefix...), cand...), false))
			}
			return okSoFar(cand, false)
		}
		for i := 0; i < n; i++ {
			for try := 0; try < 8; try++ {
				var cand []int
				switch {
				case !inMacro && pastes < maxPastes && r.Chance(1, 3):
					cand = append(append([]int{}, seq...), -3)
				case open > 0 && r.Chance(1, 3):
					cand = append(append([]int{}, seq...), -2)
				default:
					k := kinds[r.Intn(len(kinds))]
					cand = append(append([]int{}, seq...), k)
					if !c06Spellings[k].noOpen && r.Chance(1, 4) {
						cand = append(cand, -1)
					}
				}
				if ok(cand) {
					switch cand[len(cand)-1] {
					case -1:
						open++
					case -2:
						open--
					case -3:
						pastes++
					}
					seq = cand
					break
				}
			}
		}
		for open > 0 {
			seq = append(seq, -2)
			open--
		}
		if !inMacro && pastes == 0 {
			placed := false
			for _, pos := range r.Perm(len(seq) + 1) {
				if pos < len(seq) && seq[pos] == -1 {
					continue // a '(' after PASTE would belong to the PASTE: that has no in-place counterpart
				}
				cand := append(append(append([]int{}, seq[:pos]...), -3), seq[pos:]...)
				if _, rej := resolver.Resolve(evOf(cand, false)); rej == resolver.OK {
					seq, placed = cand, true
					break
				}
			}
			if !placed {
				seq = append(seq, -3)
			}
		}
		return seq
	}
	body = grow(nil, macroKinds, r.Range(1, 5), true)
	hostStart := append([]int{}, prefix...)
	if r.Chance(2, 3) {
		hostStart = append(hostStart, -3)
	}
	host := grow(hostStart, hostKinds, r.Range(0, 6), false)
	return &fw.Case{Meta: map[string]string{"body": encodeSeq(body), "host": encodeSeq(host), "macro_first": fmt.Sprint(r.Bool())}, Docs: []run.Doc{{}}}
}


// c07EvalUnusedAnywhere: the definition of a macro that nobody pastes is written in front of any directive that may
// stand at the top level - also in front of a method inside a URL block (written without parentheses): definitions are
// taken out of the text, so whatever followed the definition goes on where the text before it had stopped.
func c07EvalUnusedAnywhere(t *fw.T, c *fw.Case) {
	m, r := modelOf(c, gen.Options{MaxBlocks: 8, AllowAllOf: true})
	base := gen.Render(m, nil)
	db := run.Single([]byte(base.Text))
	db.FixedSeed = true
	ob := t.Exec(db)
	if ob.Outcome != run.Accepted {
		return
	}
	rootKinds := map[string]bool{"GET": true, "POST": true, "PUT": true, "PATCH": true, "DELETE": true, "URL": true, "TYPE": true, "ENUM": true, "SERVER": true, "INFO": true, "TAG": true}
	var at []gen.Span
	for _, s := range base.Spans {
		if rootKinds[s.Kind] && s.Begin > 0 {
			at = append(at, s)
		}
	}
	if len(at) == 0 {
		return
	}
	def := "MACRO @zzNobodyPastes\n(\n  TYPE @zzOnlyInMacro any\n  GET /zz/only/in/macro\n    200 any\n)\n"
	for k := 0; k < 3; k++ {
		s := at[r.Intn(len(at))]
		ls := strings.LastIndexByte(base.Text[:s.Begin], '\n') + 1
		text := base.Text[:ls] + def + base.Text[ls:]
		d := run.Single([]byte(text))
		d.FixedSeed = true
		o := t.Exec(d)
		t.Count("unused_macro_checked")
		t.Count("unused_macro_inside_blocks_checked")
		if o.Outcome != run.Accepted || !bytes.Equal(o.JSON, ob.JSON) {
			c.Docs = []run.Doc{db, d}
			where := "top level"
			if s.Depth > 0 {
				where = "inside a block"
			}
			t.Violation("unused-macro-contributes:"+where, fmt.Sprintf("the definition of a macro that is never pasted, written in front of %s (%s), changes the result: %s\n%s", s.Label, where, describe(o), text))
			return
		}
		t.Distinct(fmt.Sprintf("unused before %s depth%d", s.Kind, s.Depth))
	}
	// ... in front of everything (definitions are taken out before anything looks at what the first directive is), at the
	// very end, and in a file of definitions that is included in front of everything
	for _, v := range []struct {
		where string
		doc   run.Doc
	}{
		{"before the first directive", run.Single([]byte(def + base.Text))},
		{"after the last directive", run.Single([]byte(base.Text + def))},
		{"in a file included before the first directive", run.Doc{Root: "root.jst", Files: map[string][]byte{"root.jst": []byte("INCLUDE macros.jst\n" + base.Text), "macros.jst": []byte(def)}}},
	} {
		if v.where == "after the last directive" && !strings.HasSuffix(base.Text, "\n") {
			continue
		}
		d := v.doc
		d.FixedSeed = true
		o := t.Exec(d)
		t.Count("unused_macro_checked")
		if o.Outcome != run.Accepted || !bytes.Equal(o.JSON, ob.JSON) {
			c.Docs = []run.Doc{db, d}
			t.Violation("unused-macro-contributes:"+v.where, fmt.Sprintf("the definition of a macro that is never pasted, written %s, changes the result: %s\n%s", v.where, describe(o), string(d.Files[d.Root])))
			return
		}
		t.Distinct("unused " + v.where)
	}
}


// ---- arranged twins: arrangements that random extraction meets too rarely ----

type c07Twin struct{ name, body, host string }

// c07Arranged: a macro body and a host text with the marker <P> where the body is pasted (the in-place twin has the
// body's text there). Bodies pasted twice (declarations, Path directives for one prefix), long bodies (more than ten
// directives at one level), pastes under different kinds of hosts.
func c07Arranged() []c07Twin {
	many := func(n int, f func(i int) string) string {
		var sb strings.Builder
		for i := 0; i < n; i++ {
			sb.WriteString(f(i))
		}
		return sb.String()
	}
	var out []c07Twin
	out = append(out,
		c07Twin{"path-under-two-hosts-sharing-the-prefix", "Path\n  {\"id\": 1}\n", "URL /a/{id}\n  <P>  GET\n    200 any\nGET /a/{id}/x\n  <P>  200 any\n"},
		c07Twin{"path-under-two-hosts-with-different-prefixes", "Path\n  {\"id\": 1}\n", "URL /a/{id}\n  <P>  GET\n    200 any\nGET /b/{id}/x\n  <P>  200 any\n"},
		c07Twin{"enum-pasted-twice", "ENUM @size\n  [\"S\", \"M\"]\n", "<P>GET /a\n  200 any\n<P>"},
		c07Twin{"enum-pasted-once", "ENUM @size\n  [\"S\", \"M\"]\n", "<P>GET /a\n  200\n    \"S\" // {enum: @size}\n"},
		c07Twin{"type-pasted-twice", "TYPE @t\n  {\"a\": 1}\n", "<P>GET /a\n  200 @t\n<P>"},
		c07Twin{"tag-pasted-twice", "TAG @g\n", "<P>GET /a\n  Tags @g\n  200 any\n<P>"},
		c07Twin{"server-pasted-twice", "SERVER @s\n  BaseUrl \"https://a/\"\n", "<P>GET /a\n  200 any\n<P>"},
		c07Twin{"method-pasted-twice", "GET /a\n  200 any\n", "<P>TYPE @t any\n<P>"},
		c07Twin{"response-pasted-twice", "200 any\n", "GET /a\n  <P>  <P>"},
		c07Twin{"description-pasted-twice", "Description\n  (\n  text\n  )\n", "GET /a\n  <P>  <P>  200 any\n"},
		c07Twin{"headers-pasted-under-request-and-response", "Headers\n  {\"h\": \"v\"}\n", "POST /a\n  Request\n    <P>    Body any\n  200\n    <P>    Body any\n"},
	)
	// a directive the parenthesised host does not admit (further out it would be admitted): refused in both forms
	out = append(out,
		c07Twin{"inadmissible-in-parenthesised-response-with-schema", "404 any\n", "GET /a\n  200\n  (\n    {\"id\": 1}\n    <P>  )\n"},
		c07Twin{"inadmissible-in-parenthesised-request-with-schema", "200 any\n", "POST /a\n  Request\n  (\n    {\"id\": 1}\n    <P>  )\n  201 any\n"},
		c07Twin{"inadmissible-in-parenthesised-response-with-body-child", "404 any\n", "GET /a\n  200\n  (\n    Body\n      {\"id\": 1}\n    <P>  )\n"},
		c07Twin{"admissible-in-parenthesised-response-with-schema", "Headers\n  {\"h\": \"v\"}\n", "GET /a\n  200\n  (\n    <P>    Body\n      {\"id\": 1}\n  )\n"},
		c07Twin{"inadmissible-in-parenthesised-type", "GET /zz\n  200 any\n", "TYPE @t\n(\n  {\"id\": 1}\n  <P>)\n"},
		c07Twin{"inadmissible-in-parenthesised-method", "TYPE @zz any\n", "GET /a\n(\n  200 any\n  <P>)\n"},
	)
	for _, n := range []int{10, 11, 12, 21, 35} {
		nn := n
		out = append(out,
			c07Twin{fmt.Sprintf("%d-methods-at-top-level", n), many(nn, func(i int) string { return fmt.Sprintf("GET /m%d\n  200 any\n", i) }), "TYPE @t any\n<P>POST /after\n  Request any\n  200 any\n"},
			c07Twin{fmt.Sprintf("%d-responses-under-a-method", n), many(nn, func(i int) string { return fmt.Sprintf("%d any // r%d\n", 200+i, i) }), "GET /a\n  <P>GET /b\n  200 any\n"},
			c07Twin{fmt.Sprintf("%d-types", n), many(nn, func(i int) string { return fmt.Sprintf("TYPE @t%d\n  {\"k%d\": %d}\n", i, i, i) }), "<P>GET /a\n  200 @t0\n"},
			c07Twin{fmt.Sprintf("%d-methods-under-a-url", n), many(nn, func(i int) string { return []string{"GET", "POST", "PUT", "PATCH", "DELETE"}[i%5] + fmt.Sprintf(" /u/x%d\n  200 any\n", i) }), "URL /u\n  GET\n    200 any\n<P>"},
		)
	}
	return out
}

func c07EvalArranged(t *fw.T, c *fw.Case) {
	tw := c07Arranged()[c.Ints["i"]]
	indent := func(body string, by string) string {
		var sb strings.Builder
		for _, l := range strings.Split(strings.TrimSuffix(body, "\n"), "\n") {
			sb.WriteString(by + l + "\n")
		}
		return sb.String()
	}
	// in place: the body's lines at the indentation of the marker; macro form: PASTE @arr there, the definition first or last
	var inPlace, macroForm strings.Builder
	for _, seg := range strings.SplitAfter(tw.host, "<P>") {
		if !strings.HasSuffix(seg, "<P>") {
			inPlace.WriteString(seg)
			macroForm.WriteString(seg)
			continue
		}
		seg = strings.TrimSuffix(seg, "<P>")
		ls := strings.LastIndexByte(seg, '\n') + 1
		by := seg[ls:]
		inPlace.WriteString(seg[:ls] + indent(tw.body, by))
		macroForm.WriteString(seg + "PASTE @arr\n")
	}
	def := "MACRO @arr\n(\n" + indent(tw.body, "  ") + ")\n"
	for k, mf := range []string{"JSIGHT 0.3\n" + def + macroForm.String(), "JSIGHT 0.3\n" + macroForm.String() + def} {
		dm := run.Single([]byte(mf))
		di := run.Single([]byte("JSIGHT 0.3\n" + inPlace.String()))
		dm.FixedSeed, di.FixedSeed = true, true
		c.Docs = []run.Doc{dm, di}
		om, oi := t.Exec(dm), t.Exec(di)
		t.Count("twins_compared")
		t.Count("arranged_twins_compared")
		if om.Outcome == run.Rejected && oi.Outcome == run.Accepted && !run.RuntimeFaultText(om.ErrText) {
			t.Count("macro_form_rejected_expansion_accepted_not_judged")
			continue
		}
		if om.Outcome != oi.Outcome {
			t.Violation("verdict-differs:"+om.Outcome+"-vs-"+oi.Outcome+":"+rejMsg(om, oi), fmt.Sprintf("arrangement %s: macro form %s | in-place form %s\n--- macro form\n%s\n--- in-place form\n%s", tw.name, describe(om), describe(oi), mf, "JSIGHT 0.3\n"+inPlace.String()))
			return
		}
		if om.Outcome == run.Accepted && !bytes.Equal(om.JSON, oi.JSON) {
			where := ""
			if a, e1 := jsonx.Parse(om.JSON); e1 == nil {
				if b, e2 := jsonx.Parse(oi.JSON); e2 == nil {
					where = jsonx.Diff(a.Root, b.Root, "$")
				}
			}
			t.Violation("catalog-differs:"+diffClass(where), fmt.Sprintf("arrangement %s: pasting differs from writing the body in place: %s\n--- macro form\n%s", tw.name, where, mf))
			return
		}
		t.Distinct(fmt.Sprintf("arranged %s def%d %s", tw.name, k, om.Outcome))
	}
}
