package checks

import (
	"fmt"
	"github.com/jsightapi/jsight-api-go-library/catalog"
	"strings"

	"verifharness/internal/fw"
	"verifharness/internal/gen"
	"verifharness/internal/jsonx"
	"verifharness/internal/run"
	"verifharness/internal/xrand"
)

func init() {
	fw.Register(&fw.Check{
		ID:    "C20",
		Level: "exploration",
		Rule: "metamorphic: to a generated accepted document one fresh, independent declaration is added - a JSight type, a regex type, an enum, a server, a tag, a never-pasted macro, a method on an unrelated path, a method whose Path names an existing type as the shape of its parameters - at every insertion point between the top-level blocks (all points for small documents, sampled beyond); " +
			"the result must be accepted and its catalog must be the old catalog plus exactly the new entry (and, for the method, its automatic tag): every old entry deep-equal, old keys in the old order. " +
			"Conversely every declaration of the document that nothing refers to (type, enum, server, unused tag) is deleted in turn and the catalog must lose exactly that entry. " +
			"distinct_nontrivial = distinct (kind added or removed, relative position)",
		Assumptions: []string{"'nothing refers to it' is decided on the model: the name occurs nowhere else in the rendered text"},
		Families: []fw.Family{
			{Name: "locality", N: constN(900, 30000), Gen: genModelCase, Eval: c20Eval},
			{Name: "chain", N: func(string) int { return 1 }, Gen: func(r *xrand.Rand, idx int, tier string) *fw.Case {
				return &fw.Case{Meta: map[string]string{"fixed": "chain"}, Docs: []run.Doc{{}}}
			}, Eval: c20Eval},
		},
		Floors: map[string]int64{"additions_checked": 8000, "deletions_checked": 500},
	})
}

type freshDecl struct {
	kind  string
	block *gen.Block
	// the keys it adds: collection -> key
	adds map[string][]string
}

func freshDecls() []freshDecl {
	return []freshDecl{
		{"type", &gen.Block{Kind: "type", Name: "@freshType", Notation: "jsight", Annotation: "fresh", Schema: &gen.SNode{Kind: "object", Props: []*gen.SProp{{Key: "f", Node: &gen.SNode{Kind: "int", Val: "1"}}}}},
			map[string][]string{"userTypes": {"@freshType"}}},
		{"regex-type", &gen.Block{Kind: "type", Name: "@freshRegex", Notation: "regex", Regex: "fr[e]+sh"}, map[string][]string{"userTypes": {"@freshRegex"}}},
		{"regex-type-matching-a-control-character", &gen.Block{Kind: "type", Name: "@freshBell", Notation: "regex", Regex: "[\\x07]x"}, map[string][]string{"userTypes": {"@freshBell"}}},
		{"enum", &gen.Block{Kind: "enum", Name: "@freshEnum", EnumVals: []gen.EnumVal{{Kind: "int", Val: "1"}, {Kind: "string", Val: "two"}}}, map[string][]string{"userEnums": {"@freshEnum"}}},
		{"server", &gen.Block{Kind: "server", Name: "@freshServer", BaseURL: "https://fresh.example/"}, map[string][]string{"servers": {"@freshServer"}}},
		{"tag", &gen.Block{Kind: "tag", Name: "@FreshTag", Annotation: "Fresh"}, map[string][]string{"tags": {"@FreshTag"}}},
		{"macro", &gen.Block{Kind: "macro", Name: "@freshMacro", MacroBody: []*gen.Block{{Kind: "type", Name: "@onlyInMacro", Notation: "any"}}}, map[string][]string{}},
		{"method", &gen.Block{Kind: "method", Method: &gen.Method{Verb: "GET", Path: "/freshsegment/x", OwnPath: true, Annotation: "fresh method",
			Responses: []*gen.Response{{Code: "200", Body: gen.Body{Form: "any"}}}}},
			map[string][]string{"interactions": {"http GET /freshsegment/x"}, "tags": {"@freshsegment"}}},
		{"method-with-path-shortcut", &gen.Block{Kind: "method", Method: &gen.Method{Verb: "GET", Path: "/freshshape/{fp}/{fq}", OwnPath: true,
			PathDecl:  &gen.SNode{Kind: "ref", Ref: "@pathShape"},
			Responses: []*gen.Response{{Code: "200", Body: gen.Body{Form: "any"}}}}},
			map[string][]string{"interactions": {"http GET /freshshape/{fp}/{fq}"}, "tags": {"@freshshape"}}},
		{"rpc-block", &gen.Block{Kind: "rpcurl", Path: "/freshrpc", RPC: []*gen.RPCMethod{{Name: "freshPing",
			Params: &gen.SNode{Kind: "object", Props: []*gen.SProp{{Key: "fp", Node: &gen.SNode{Kind: "int", Val: "1"}}}},
			Result: &gen.SNode{Kind: "object", Props: []*gen.SProp{{Key: "fr", Node: &gen.SNode{Kind: "bool", Val: "true"}}}}}}},
			map[string][]string{"interactions": {"json-rpc-2.0 freshPing /freshrpc"}, "tags": {"@freshrpc"}}},
		{"url-block", &gen.Block{Kind: "url", Path: "/freshurl/{fid}", Methods: []*gen.Method{{Verb: "POST", Path: "/freshurl/{fid}",
			Request:   &gen.Request{Body: gen.Body{Form: "schema", Schema: &gen.SNode{Kind: "object", Props: []*gen.SProp{{Key: "x", Node: &gen.SNode{Kind: "int", Val: "1"}}}}}},
			Responses: []*gen.Response{{Code: "201", Body: gen.Body{Form: "empty"}}}}}},
			map[string][]string{"interactions": {"http POST /freshurl/{fid}"}, "tags": {"@freshurl"}}},
	}
}

// without returns the catalog without the given keys of the given collections.
func without(root *jsonx.Node, drop map[string][]string) *jsonx.Node {
	out := &jsonx.Node{Kind: 'o'}
	for i, k := range root.Keys {
		v := root.Vals[i]
		if names, ok := drop[k]; ok && v.Kind == 'o' {
			nv := &jsonx.Node{Kind: 'o'}
			for j, kk := range v.Keys {
				skip := false
				for _, n := range names {
					if n == kk {
						skip = true
					}
				}
				if !skip {
					nv.Keys = append(nv.Keys, kk)
					nv.Vals = append(nv.Vals, v.Vals[j])
				}
			}
			if len(nv.Keys) == 0 && (k == "servers" || k == "userTypes" || k == "userEnums") {
				continue // the collection key itself is omitted when empty
			}
			v = nv
		}
		out.Keys = append(out.Keys, k)
		out.Vals = append(out.Vals, v)
	}
	return out
}

// c20ChainModel: two heirs of one intermediate type which itself inherits (the deterministic witness of the
// recorded used-types finding: which heir is processed first decides who lists the transitive base).
func c20ChainModel() *gen.Model {
	obj := func(key string, allOf ...string) *gen.SNode {
		return &gen.SNode{Kind: "object", AllOf: allOf, Props: []*gen.SProp{{Key: key, Node: &gen.SNode{Kind: "int", Val: "1"}}}}
	}
	return &gen.Model{Blocks: []*gen.Block{
		{Kind: "type", Name: "@u1", Notation: "jsight", Schema: obj("k1", "@mid")},
		{Kind: "type", Name: "@u2", Notation: "jsight", Schema: obj("k2", "@mid")},
		{Kind: "type", Name: "@mid", Notation: "jsight", Schema: obj("km", "@base")},
		{Kind: "type", Name: "@base", Notation: "jsight", Schema: obj("kb")},
	}}
}

func c20Eval(t *fw.T, c *fw.Case) {
	m, r := modelOf(c, gen.Options{MaxBlocks: 9, AllowAllOf: true, DeepAllOf: true})
	if c.Meta["fixed"] == "chain" {
		m = c20ChainModel()
	}
	// every document has a type that a fresh method may name as the shape of its path parameters
	// (in front, so that the document ends with whatever block the generator put last)
	shape := &gen.Block{Kind: "type", Name: "@pathShape", Notation: "jsight", Schema: &gen.SNode{Kind: "object", Props: []*gen.SProp{
		{Key: "fp", Node: &gen.SNode{Kind: "int", Val: "1", Optional: true}}, {Key: "fq", Node: &gen.SNode{Kind: "string", Val: "q", Note: "the q"}}}}}
	if c.Index%2 == 0 {
		m.Blocks = append([]*gen.Block{shape}, m.Blocks...)
	} else {
		m.Blocks = append(m.Blocks, shape)
	}
	base := gen.Render(m, nil)
	db := run.Single([]byte(base.Text))
	db.FixedSeed = true
	ob := t.Exec(db)
	if ob.Outcome != run.Accepted {
		t.Count("base_not_accepted")
		return
	}
	cb, err := jsonx.Parse(ob.JSON)
	if err != nil {
		return
	}
	n := len(m.Blocks)
	positions := make([]int, 0, n+1)
	for i := 0; i <= n; i++ {
		positions = append(positions, i)
	}
	if n > 6 && !t.Thorough() {
		positions = []int{0, r.Intn(n + 1), r.Intn(n + 1), n}
	}
	decls := freshDecls()
	// fresh methods whose paths look like existing ones without being related: the first segment has an existing one
	// as a proper prefix; the path reaches an existing segment through '..' (an ordinary segment in this language)
	seg := ""
	for _, b := range m.Blocks {
		p := b.Path
		if b.Kind == "method" && b.Method != nil {
			p = b.Method.Path
		}
		if fs := firstSegment(p); fs != "" && !strings.ContainsAny(fs, "{}") && seg == "" {
			seg = fs
		}
	}
	if seg != "" {
		mk := func(kind, path string) freshDecl {
			return freshDecl{kind, &gen.Block{Kind: "method", Method: &gen.Method{Verb: "PUT", Path: path, OwnPath: true, Annotation: "fresh",
				Responses: []*gen.Response{{Code: "200", Body: gen.Body{Form: "any"}}}}},
				map[string][]string{"interactions": {"http PUT " + path}, "tags": {catalog.VerifTagName(catalog.VerifPathTagTitle(path))}}}
		}
		decls = append(decls, mk("method-segment-extends-existing", "/"+seg+"zzfresh/x"), mk("method-dotdot-to-existing", "/zzfreshdots/../"+seg+"/zzfreshleaf"))
	}
	// ... and a fresh parameterised path whose literal segments, written together, spell those in front of an existing
	// parameter (/api/v1/{id} and /apiv1/{fresh}): unrelated paths, other first segment, other parameter name
	for _, b := range m.Blocks {
		p := b.Path
		if b.Kind == "method" && b.Method != nil {
			p = b.Method.Path
		}
		at := strings.Index(p, "/{")
		if at <= 0 || strings.Count(p[:at], "/") < 2 || strings.ContainsAny(p[:at], "{}%\" ") {
			continue
		}
		joined := "/" + strings.ReplaceAll(p[1:at], "/", "") + "/{zzfreshparam}"
		decls = append(decls, freshDecl{"method-joined-segments-of-existing", &gen.Block{Kind: "method", Method: &gen.Method{Verb: "PUT", Path: joined, OwnPath: true,
			Responses: []*gen.Response{{Code: "200", Body: gen.Body{Form: "any"}}}}},
			map[string][]string{"interactions": {"http PUT " + joined}, "tags": {catalog.VerifTagName(catalog.VerifPathTagTitle(joined))}}})
		break
	}
	for _, fd := range decls {
		for _, pos := range positions {
			pm := &gen.Model{}
			pm.Blocks = append(pm.Blocks, m.Blocks[:pos]...)
			pm.Blocks = append(pm.Blocks, fd.block)
			pm.Blocks = append(pm.Blocks, m.Blocks[pos:]...)
			rd := gen.Render(pm, nil)
			d := run.Single([]byte(rd.Text))
			d.FixedSeed = true
			o := t.Exec(d)
			t.Count("additions_checked")
			fail := func(sig, msg string) {
				c.Docs = []run.Doc{db, d}
				t.Violation(sig, fmt.Sprintf("%s (added %s at position %d of %d)\n--- before\n%s\n--- after\n%s", msg, fd.kind, pos, n, base.Text, rd.Text))
			}
			if o.Outcome != run.Accepted {
				sig := "addition-changes-verdict:" + fd.kind + ":" + outcomeSig(o)
				if fd.kind == "regex-type-matching-a-control-character" && strings.Contains(o.Msg, "in string escape code") {
					// one cause (recorded finding), several places where it surfaces: one signature
					sig = "addition-changes-verdict:" + fd.kind + ":string-escape-code"
				}
				fail(sig, "adding an independent declaration makes the document "+describe(o))
				break
			}
			cm, err := jsonx.Parse(o.JSON)
			if err != nil {
				break
			}
			// the new entries exist
			missing := false
			for coll, keys := range fd.adds {
				for _, k := range keys {
					if cm.Root.Get(coll).Get(k) == nil {
						fail("new-entry-missing:"+fd.kind, fmt.Sprintf("the added declaration has no entry %s.%s", coll, k))
						missing = true
					}
				}
			}
			if missing {
				break
			}
			if diff := jsonx.Diff(cb.Root, without(cm.Root, fd.adds), "$"); diff != "" {
				fail("addition-changes-other-entries:"+fd.kind+":"+diffClass(diff), "adding an independent declaration changes something else: "+diff)
				if !strings.Contains(diff, "usedUserTypes") {
					break
				}
				// the used-type lists are a recorded finding (see C10): keep looking at everything else
				if diff2 := jsonx.Diff(stripKey(cb.Root, "usedUserTypes"), stripKey(without(cm.Root, fd.adds), "usedUserTypes"), "$"); diff2 != "" {
					fail("addition-changes-other-entries:"+fd.kind+":"+diffClass(diff2), "adding an independent declaration changes something else: "+diff2)
					break
				}
			}
			rel := "middle"
			if pos == 0 {
				rel = "first"
			} else if pos == n {
				rel = "last"
			}
			t.Distinct("add " + fd.kind + " " + rel)
		}
	}
	// deletions of unreferenced declarations
	for i, b := range m.Blocks {
		var coll string
		switch b.Kind {
		case "type":
			coll = "userTypes"
		case "enum":
			coll = "userEnums"
		case "server":
			coll = "servers"
		case "tag":
			coll = "tags"
		default:
			continue
		}
		if wholeWordCount(base.Text, b.Name) != 1 {
			continue // the name is used somewhere besides its declaration
		}
		pm := &gen.Model{}
		pm.Blocks = append(pm.Blocks, m.Blocks[:i]...)
		pm.Blocks = append(pm.Blocks, m.Blocks[i+1:]...)
		rd := gen.Render(pm, nil)
		d := run.Single([]byte(rd.Text))
		d.FixedSeed = true
		o := t.Exec(d)
		t.Count("deletions_checked")
		if o.Outcome != run.Accepted {
			c.Docs = []run.Doc{db, d}
			t.Violation("deletion-changes-verdict:"+b.Kind+":"+outcomeSig(o), fmt.Sprintf("deleting the unreferenced %s %s makes the document %s\n--- before\n%s", b.Kind, b.Name, describe(o), base.Text))
			continue
		}
		cm, err := jsonx.Parse(o.JSON)
		if err != nil {
			continue
		}
		if diff := jsonx.Diff(without(cb.Root, map[string][]string{coll: {b.Name}}), cm.Root, "$"); diff != "" {
			c.Docs = []run.Doc{db, d}
			t.Violation("deletion-changes-other-entries:"+b.Kind+":"+diffClass(diff), fmt.Sprintf("deleting the unreferenced %s %s changes something else: %s\n--- before\n%s", b.Kind, b.Name, diff, base.Text))
			if !strings.Contains(diff, "usedUserTypes") {
				continue
			}
			if diff2 := jsonx.Diff(stripKey(without(cb.Root, map[string][]string{coll: {b.Name}}), "usedUserTypes"), stripKey(cm.Root, "usedUserTypes"), "$"); diff2 != "" {
				t.Violation("deletion-changes-other-entries:"+b.Kind+":"+diffClass(diff2), fmt.Sprintf("deleting the unreferenced %s %s changes something else: %s\n--- before\n%s", b.Kind, b.Name, diff2, base.Text))
			}
			continue
		}
		t.Distinct("delete " + b.Kind)
	}
	t.Sample("locality", map[string]interface{}{"blocks": n, "document": base.Text})
}

// wholeWordCount counts the occurrences of name that are not a prefix of a longer name.
func wholeWordCount(text, name string) int {
	n := 0
	for i := 0; ; {
		j := strings.Index(text[i:], name)
		if j < 0 {
			return n
		}
		end := i + j + len(name)
		if end >= len(text) || !(text[end] >= '0' && text[end] <= '9' || text[end] >= 'a' && text[end] <= 'z' || text[end] >= 'A' && text[end] <= 'Z' || text[end] == '_') {
			n++
		}
		i = end
	}
}
