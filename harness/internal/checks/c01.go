package checks

import (
	"bytes"
	"fmt"
	"strings"

	"verifharness/internal/corpus"
	"verifharness/internal/fw"
	"verifharness/internal/gen"
	"verifharness/internal/mut"
	"verifharness/internal/run"
	"verifharness/internal/xrand"
)

func init() {
	fw.Register(&fw.Check{
		ID:    "C01",
		Level: "exploration",
		Rule: "every case is one project run through NewJapi/ValidateJAPI/ToJson/ToJsonIndent under recover() in a child process " +
			"(stack capped at 64 MiB, 40 CPU-seconds per case, scanner step budget 4*len+64 per scanner, paste depth budget = #macros+1); " +
			"families: fixture corpus x {LF,CRLF,CR}; every prefix of corpus files; seeded byte/token mutants of the corpus; all token " +
			"sequences up to the bound x 3 joiners plus sampled longer ones; generated include graphs (missing/dir/self/cyclic/diamond/deep/empty); " +
			"all paste digraphs on <=3 macros x paste sites; size stress; ban-option sets; FS faults injected with strace. " +
			"distinct_nontrivial counts distinct (outcome, message template) classes plus the mutants that reached a new scanner (state, byte-class) pair",
		Assumptions: []string{
			"a finite run cannot decide 'never loops forever': restated as bounded progress on logical steps and a 40 CPU-second cap per case",
			"fatal errors are attributed to the last case logged by the worker before it died",
		},
		Families: []fw.Family{
			{Name: "corpus", N: func(string) int { return len(corpus.All()) * 3 }, Gen: c01GenCorpus, Eval: c01Eval},
			{Name: "prefix", Stream: c01StreamPrefix, Eval: c01Eval},
			{Name: "tokens", Stream: c01StreamTokens, Eval: c01Eval},
			{Name: "tokens_rand", N: constN(20000, 300000), Gen: c01GenTokensRand, Eval: c01Eval},
			{Name: "mutant", N: constN(40000, 1500000), Gen: c01GenMutant, Eval: c01Eval},
			{Name: "includes", N: constN(600, 20000), Gen: c01GenIncludes, Eval: c01Eval},
			{Name: "macros", Stream: c01StreamMacros, Eval: c01Eval},
			{Name: "macros_rand", N: constN(500, 20000), Gen: c01GenMacrosRand, Eval: c01Eval},
			{Name: "stress", N: func(tier string) int { return len(stressList(tier)) }, Gen: c01GenStress, Eval: c01Eval},
			{Name: "options", N: constN(1500, 40000), Gen: c01GenOptions, Eval: c01Eval},
			{Name: "models", N: constN(6000, 300000), Gen: genModelCase, Eval: c01EvalModel},
			{Name: "regex-bodies", Stream: c01StreamRegex, Eval: c01Eval},
			{Name: "schema-bodies", Stream: c01StreamSchemaBodies, Eval: c01Eval},
			{Name: "references", N: constN(6000, 150000), Gen: c09GenReferences, Eval: c01Eval},
			{Name: "recursive-types", Stream: c01StreamRecursive, Eval: c01Eval},
			{Name: "paths", Stream: c01StreamPaths, Eval: c01Eval},
			{Name: "long-error-lines", Stream: c01StreamLongLines, Eval: c01Eval},
		},
		Floors: map[string]int64{"accepted": 500, "rejected": 5000},
	})
}

func c01Eval(t *fw.T, c *fw.Case) {
	for _, d := range c.Docs {
		o := t.Exec(d)
		t.Count(o.Outcome)
		totality(t, o)
		t.Distinct(outcomeClass(o))
		if o.Outcome == run.Rejected {
			t.Sample("rejected/"+c.Family, map[string]interface{}{"input": fw.Short(d.Files[d.Root], 200), "msg": o.Msg, "index": o.Index})
		} else if o.Outcome == run.Accepted {
			t.Sample("accepted/"+c.Family, map[string]interface{}{"input": fw.Short(d.Files[d.Root], 200), "json_bytes": len(o.JSON)})
		}
	}
}

func c01GenCorpus(r *xrand.Rand, idx int, tier string) *fw.Case {
	ee := corpus.All()
	e := ee[idx/3]
	return oneDocCase(mut.Newlines(e.Content, idx%3), e.Dir, fmt.Sprintf("%s newline-mode=%d", e.Path, idx%3))
}

func c01StreamPrefix(t *fw.T, shard, nshards int, emit func(*fw.Case)) {
	ee := corpus.All()
	step := t.Pick(20, 1)
	n := 0
	for i := int(t.Seed % uint64(step)); i < len(ee); i += step {
		e := ee[i]
		if len(e.Content) > 3000 && !t.Thorough() {
			continue
		}
		for l := 0; l < len(e.Content); l++ {
			n++
			if n%nshards != shard {
				emit(nil)
				continue
			}
			emit(oneDocCase(e.Content[:l], e.Dir, fmt.Sprintf("prefix %d of %s", l, e.Path)))
		}
	}
}

func c01StreamTokens(t *fw.T, shard, nshards int, emit func(*fw.Case)) {
	toks := mut.Tokens
	maxL := t.Pick(2, 3)
	n := 0
	var rec func(prefix []string, depth int)
	rec = func(prefix []string, depth int) {
		if depth > 0 {
			for _, j := range mut.Joiners {
				n++
				if n%nshards != shard {
					emit(nil)
					continue
				}
				emit(oneDocCase([]byte(strings.Join(prefix, j)), "", "token sequence"))
			}
		}
		if depth == maxL {
			return
		}
		for _, tk := range toks {
			rec(append(prefix, tk), depth+1)
		}
	}
	rec(nil, 0)
}

func c01GenTokensRand(r *xrand.Rand, idx int, tier string) *fw.Case {
	l := r.Range(4, 8)
	parts := make([]string, l)
	for i := range parts {
		parts[i] = mut.Tokens[r.Intn(len(mut.Tokens))]
	}
	var sb strings.Builder
	for i, p := range parts {
		if i > 0 {
			sb.WriteString(mut.Joiners[r.Intn(3)])
		}
		sb.WriteString(p)
	}
	return oneDocCase([]byte(sb.String()), "", "random token sequence")
}

func c01GenMutant(r *xrand.Rand, idx int, tier string) *fw.Case {
	base := pickCorpus(r, 4096)
	other := pickCorpus(r, 4096)
	b := mut.Mutate(r, base.Content, other.Content)
	return oneDocCase(b, base.Dir, "mutant of "+base.Path)
}

// ---- include graphs ----

var fragments = []string{
	"TYPE @t%d\n{\"a\": 1}\n",
	"TYPE @t%d regex\n/ab%d/\n",
	"ENUM @e%d\n[\"x\", \"y\"]\n",
	"URL /u%d\n  GET\n    200 any\n",
	"GET /g%d/{id}\n  Path\n  {\"id\": 1}\n  200\n  {\"a\": [1,2]}\n",
	"SERVER @s%d\n  BaseUrl \"https://x%d/\"\n",
	"TAG @tag%d\n  Description\n    text %d\n",
	"MACRO @m%d\n(\n  200 any\n)\n",
	"POST /p%d\n  Request\n  {\"a\": \"b\"}\n  200 empty\n",
	"URL /r%d\n  Protocol json-rpc-2.0\n  Method m%d\n    Params\n    {}\n",
	"# comment %d\n",
	"INFO\n  Title \"T%d\"\n",
}

func frag(r *xrand.Rand, uniq *int) string { return fragOf(r, uniq, len(fragments)) }

// fragSafe never yields a fragment that may legitimately appear only once (INFO).
func fragSafe(r *xrand.Rand, uniq *int) string { return fragOf(r, uniq, len(fragments)-1) }

func fragOf(r *xrand.Rand, uniq *int, n int) string {
	*uniq++
	f := fragments[r.Intn(n)]
	k := strings.Count(f, "%d")
	args := make([]interface{}, k)
	for i := range args {
		args[i] = *uniq
	}
	return fmt.Sprintf(f, args...)
}

func c01GenIncludes(r *xrand.Rand, idx int, tier string) *fw.Case {
	nf := r.Range(1, 6)
	names := []string{"root.jst"}
	for i := 1; i <= nf; i++ {
		switch r.Intn(4) {
		case 0:
			names = append(names, fmt.Sprintf("sub/f%d.jst", i))
		case 1:
			names = append(names, fmt.Sprintf("sub/deep/f%d.jst", i))
		default:
			names = append(names, fmt.Sprintf("f%d.jst", i))
		}
	}
	files := map[string][]byte{}
	uniq := idx * 100
	special := r.Intn(12)
	for fi, name := range names {
		var sb strings.Builder
		if fi == 0 && !r.Chance(1, 20) {
			sb.WriteString("JSIGHT 0.3\n")
		}
		if fi != 0 && r.Chance(1, 25) {
			sb.WriteString("JSIGHT 0.3\n")
		}
		nb := r.Range(0, 3)
		if fi != 0 && r.Chance(1, 8) {
			nb = 0 // empty (or nearly) included file
		}
		for k := 0; k <= nb; k++ {
			if k < nb {
				sb.WriteString(frag(r, &uniq))
			}
			// maybe an include
			if r.Chance(2, 5) {
				var target string
				switch r.Intn(15) {
				case 13:
					target = "pipe.jst" // a named pipe nobody writes to
					files["pipe.jst@fifo"] = nil
				case 14:
					target = "zero.jst" // a link to a device that never ends
					files["zero.jst@symlink"] = []byte("/dev/zero")
				case 10:
					target = names[r.Intn(len(names))] + "/x.jst" // a path through a regular file: Stat fails with ENOTDIR
				case 11:
					target = strings.Repeat("n", 300) + ".jst" // Stat fails with ENAMETOOLONG
				case 12:
					target = "loop.jst" // a symbolic link to itself: Stat fails with ELOOP
					files["loop.jst@symlink"] = []byte("loop.jst")
				case 0:
					target = name // self
				case 1:
					target = "missing.jst"
				case 2:
					target = "sub" // a directory
				case 3:
					target = names[r.Intn(len(names))] // anything, cycles included
				default:
					if fi+1 < len(names) {
						target = names[fi+1+r.Intn(len(names)-fi-1)] // forward: acyclic
					} else {
						target = "missing2.jst"
					}
				}
				// make the target relative to this file's directory when possible
				target = relTo(name, target)
				switch r.Intn(8) {
				case 0:
					sb.WriteString("(\nINCLUDE " + target + "\n)\n")
				case 1:
					sb.WriteString("INCLUDE \"" + target + "\"\n")
				case 2:
					sb.WriteString("  INCLUDE " + target + " # c\n")
				case 3:
					sb.WriteString("URL /inc" + fmt.Sprint(uniq) + "\n  INCLUDE " + target + "\n")
					uniq++
				case 4:
					sb.WriteString("MACRO @im" + fmt.Sprint(uniq) + "\n(\n  INCLUDE " + target + "\n)\n")
					uniq++
				default:
					sb.WriteString("INCLUDE " + target + "\n")
				}
			}
		}
		s := sb.String()
		if r.Chance(1, 6) {
			s = strings.TrimRight(s, "\n") // no trailing newline: INCLUDE may be the last token
		}
		if special == 0 && fi == len(names)-1 {
			s = "" // truly empty last file
		}
		if special == 1 && fi == 1 {
			s = "URL /only\n" // a file ending in an open directive
		}
		content := []byte(s)
		switch r.Intn(6) {
		case 0:
			content = mut.Newlines(content, 1)
		case 1:
			content = mut.Newlines(content, 2)
		}
		files[name] = content
	}
	if special == 2 { // deep chain
		depth := 50
		if tier == "thorough" {
			depth = 400
		}
		for i := 0; i < depth; i++ {
			files[fmt.Sprintf("chain%d.jst", i)] = []byte(fmt.Sprintf("TYPE @c%d\n1\nINCLUDE chain%d.jst\n", i, i+1))
		}
		files[fmt.Sprintf("chain%d.jst", depth)] = []byte("TYPE @last\n1\n")
		files["root.jst"] = append(files["root.jst"], []byte("\nINCLUDE chain0.jst\n")...)
	}
	if special == 3 { // error located in an empty included file
		files["empty.jst"] = []byte{}
		files["root.jst"] = []byte("JSIGHT 0.3\nURL /a\n(\nINCLUDE empty.jst\n")
	}
	files["sub/"] = nil
	return &fw.Case{Docs: []run.Doc{{Files: files, Root: "root.jst"}}, Note: "include graph"}
}

// relTo expresses target (a project-relative path) relative to the directory of from, when it is below it;
// otherwise returns the target unchanged (which then usually does not exist - also interesting).
func relTo(from, target string) string {
	dir := ""
	if i := strings.LastIndex(from, "/"); i >= 0 {
		dir = from[:i+1]
	}
	if dir != "" && strings.HasPrefix(target, dir) {
		return target[len(dir):]
	}
	return target
}

// ---- macro graphs ----

var pasteSites = []string{"top", "url", "method", "request", "response", "info", "server"}

// macroDoc builds a document with n macros; edges[i] is a bitmask of macros pasted by macro i;
// site says where the top-level PASTE @m0 goes ("none": no top-level paste).
func macroDoc(n int, edges []int, site string, bodyKind []int) string {
	var sb strings.Builder
	sb.WriteString("JSIGHT 0.3\n")
	for i := 0; i < n; i++ {
		fmt.Fprintf(&sb, "MACRO @m%d\n(\n", i)
		switch bodyKind[i] {
		case 0:
			// nothing but pastes
		case 1:
			fmt.Fprintf(&sb, "  Headers\n  {\"h%d\": \"v\"}\n", i)
		case 2:
			fmt.Fprintf(&sb, "  TYPE @mt%d\n  {\"a\": %d}\n", i, i)
		case 3:
			fmt.Fprintf(&sb, "  20%d any\n", i)
		case 4:
			fmt.Fprintf(&sb, "  Title \"t%d\"\n", i)
		case 5:
			fmt.Fprintf(&sb, "  BaseUrl \"https://m%d/\"\n", i)
		}
		for j := 0; j < n; j++ {
			if edges[i]&(1<<j) != 0 {
				fmt.Fprintf(&sb, "  PASTE @m%d\n", j)
			}
		}
		if bodyKind[i] == 0 && edges[i] == 0 {
			sb.WriteString("  TYPE @only" + fmt.Sprint(i) + "\n  1\n")
		}
		sb.WriteString(")\n")
	}
	switch site {
	case "top":
		sb.WriteString("PASTE @m0\n")
	case "url":
		sb.WriteString("URL /a\n  PASTE @m0\n")
	case "method":
		sb.WriteString("GET /a\n  PASTE @m0\n")
	case "request":
		sb.WriteString("POST /a\n  Request\n    PASTE @m0\n    Body any\n  200 any\n")
	case "response":
		sb.WriteString("GET /a\n  200\n    PASTE @m0\n    Body any\n")
	case "info":
		sb.WriteString("INFO\n  PASTE @m0\n")
	case "server":
		sb.WriteString("SERVER @s\n  PASTE @m0\n")
	}
	return sb.String()
}

func c01StreamMacros(t *fw.T, shard, nshards int, emit func(*fw.Case)) {
	n := 0
	sites := append([]string{"none"}, pasteSites...)
	for nm := 1; nm <= 3; nm++ {
		total := 1
		for i := 0; i < nm; i++ {
			total *= 1 << nm
		}
		for g := 0; g < total; g++ {
			edges := make([]int, nm)
			x := g
			for i := 0; i < nm; i++ {
				edges[i] = x & (1<<nm - 1)
				x >>= nm
			}
			for si, site := range sites {
				n++
				if n%nshards != shard {
					emit(nil)
					continue
				}
				kinds := make([]int, nm)
				for i := range kinds {
					kinds[i] = (g + si + i) % 6
				}
				emit(oneDocCase([]byte(macroDoc(nm, edges, site, kinds)), "", fmt.Sprintf("macro graph n=%d edges=%v site=%s", nm, edges, site)))
			}
		}
	}
}

func c01GenMacrosRand(r *xrand.Rand, idx int, tier string) *fw.Case {
	nm := r.Range(2, 6)
	edges := make([]int, nm)
	for i := range edges {
		for j := 0; j < nm; j++ {
			if r.Chance(1, 4) {
				edges[i] |= 1 << j
			}
		}
	}
	kinds := make([]int, nm)
	for i := range kinds {
		kinds[i] = r.Intn(6)
	}
	site := append([]string{"none"}, pasteSites...)[r.Intn(8)]
	return oneDocCase([]byte(macroDoc(nm, edges, site, kinds)), "", fmt.Sprintf("random macro graph n=%d edges=%v site=%s", nm, edges, site))
}

// ---- size stress ----

// Sizes are chosen so that the unchanged tree stays far below the per-case CPU cap: the type-chain
// cases are roughly cubic in the number of types in this library (100 types: 0.1 s, 400: 2.6-22 s).
type stressCase struct {
	kind string
	n    int
}

var stressQuick = []stressCase{
	{"nest-array", 1000}, {"nest-object", 1000}, {"nest-mixed", 600}, {"nest-paren", 5000}, {"nest-array", 5200},
	{"long-line", 400000}, {"many-directives", 3000}, {"allof-chain", 100}, {"ref-chain", 120}, {"many-macros", 300},
	{"long-param", 200000}, {"long-comment", 100000}, {"deep-description", 20000}, {"many-enums", 400}, {"long-annotation", 100000},
	{"many-types", 400}, {"wide-object", 3000}, {"many-includes-lines", 2000},
}

var stressThorough = append(append([]stressCase{}, stressQuick...), []stressCase{
	{"nest-array", 4000}, {"nest-object", 4000}, {"nest-object", 5200}, {"nest-array", 12000}, {"nest-mixed", 3000}, {"nest-paren", 200000},
	{"long-line", 4000000}, {"many-directives", 40000}, {"allof-chain", 220}, {"ref-chain", 300}, {"many-macros", 2000},
	{"long-param", 4000000}, {"long-comment", 4000000}, {"deep-description", 400000}, {"many-enums", 2500}, {"long-annotation", 2000000},
	{"many-types", 1500}, {"wide-object", 40000}, {"many-includes-lines", 50000},
}...)

var stressKinds = stressQuick // (length used by the registration)

func stressList(tier string) []stressCase {
	if tier == "thorough" {
		return stressThorough
	}
	return stressQuick
}

func c01GenStress(r *xrand.Rand, idx int, tier string) *fw.Case {
	list := stressList(tier)
	sc := list[idx%len(list)]
	kind, n := sc.kind, sc.n
	var sb bytes.Buffer
	sb.WriteString("JSIGHT 0.3\n")
	switch kind {
	case "nest-array":
		sb.WriteString("TYPE @a\n" + strings.Repeat("[", n) + "1" + strings.Repeat("]", n) + "\n")
	case "nest-object":
		sb.WriteString("TYPE @a\n" + strings.Repeat("{\"a\":", n) + "1" + strings.Repeat("}", n) + "\n")
	case "nest-mixed":
		sb.WriteString("GET /a\n 200\n" + strings.Repeat("[{\"a\":", n/2) + "1" + strings.Repeat("}]", n/2) + "\n")
	case "nest-paren":
		sb.WriteString("URL /a\n" + strings.Repeat("(\n", n) + strings.Repeat(")\n", n))
	case "long-line":
		sb.WriteString("TYPE @a\n\"" + strings.Repeat("x", n) + "\"\n")
	case "many-directives":
		for i := 0; i < n; i++ {
			fmt.Fprintf(&sb, "GET /p%d\n  200 any\n", i)
		}
	case "allof-chain":
		sb.WriteString("TYPE @c0\n{\"k0\": 1}\n")
		for i := 1; i < n; i++ {
			fmt.Fprintf(&sb, "TYPE @c%d\n{ // {allOf: \"@c%d\"}\n  \"k%d\": 1\n}\n", i, i-1, i)
		}
	case "ref-chain":
		sb.WriteString("TYPE @c0\n1\n")
		for i := 1; i < n; i++ {
			fmt.Fprintf(&sb, "TYPE @c%d\n{\"k\": @c%d}\n", i, i-1)
		}
	case "many-types":
		for i := 0; i < n; i++ {
			fmt.Fprintf(&sb, "TYPE @t%d\n%d\n", i, i)
		}
	case "many-macros":
		for i := 0; i < n; i++ {
			fmt.Fprintf(&sb, "MACRO @m%d\n(\n  TAG @t%d\n", i, i)
			if i+1 < n {
				fmt.Fprintf(&sb, "  PASTE @m%d\n", i+1)
			}
			sb.WriteString(")\n")
		}
		sb.WriteString("PASTE @m0\n")
	case "long-param":
		sb.WriteString("INFO\n  Title \"" + strings.Repeat("t", n) + "\"\n")
	case "long-comment":
		sb.WriteString("###" + strings.Repeat("c#c\n", n/4) + "###\nINFO\n  Title \"x\"\n")
	case "deep-description":
		sb.WriteString("INFO\n  Description\n" + strings.Repeat("    line of text\n\n", n/18))
	case "many-enums":
		for i := 0; i < n; i++ {
			fmt.Fprintf(&sb, "ENUM @e%d\n[%d]\n", i, i)
		}
		sb.WriteString("TYPE @u\n{\n  \"a\": 0 // {enum: @e0}\n}\n")
	case "long-annotation":
		sb.WriteString("GET /a // " + strings.Repeat("word ", n/5) + "\n  200 any\n")
	case "wide-object":
		sb.WriteString("TYPE @w\n{\n")
		for i := 0; i < n; i++ {
			if i > 0 {
				sb.WriteString(",\n")
			}
			fmt.Fprintf(&sb, "  \"k%d\": %d", i, i)
		}
		sb.WriteString("\n}\n")
	case "many-includes-lines":
		for i := 0; i < n; i++ {
			sb.WriteString("# c\n\n   \n")
		}
		sb.WriteString("GET /a\n  200 any\n")
	}
	return oneDocCase(sb.Bytes(), "", fmt.Sprintf("stress %s n=%d", kind, n))
}

// ---- option sets ----

func c01GenOptions(r *xrand.Rand, idx int, tier string) *fw.Case {
	e := pickCorpus(r, 8192)
	d := memDoc(e.Content, e.Dir)
	all := append([]string{}, mut.Keywords[:29]...)
	all = append(all, "HTTP-response-code")
	if idx%3 == 0 {
		d.Ban = []string{all[(idx/3)%len(all)]}
	} else {
		k := r.Range(2, 12)
		for i := 0; i < k; i++ {
			d.Ban = append(d.Ban, all[r.Intn(len(all))])
		}
	}
	d.FixedSeed = r.Bool()
	if r.Chance(1, 3) {
		d.Files[d.Root] = mut.Mutate(r, e.Content, nil)
	}
	return &fw.Case{Docs: []run.Doc{d}, Note: "options on " + e.Path}
}

// c01EvalModel: generated API models (deep allOf allowed), rendered in a random style, then mutated half of the time.
func c01EvalModel(t *fw.T, c *fw.Case) {
	m, r := modelOf(c, gen.Options{MaxBlocks: 16, AllowAllOf: true, DeepAllOf: true})
	rd := gen.Render(m, gen.RandomStyle(r.Fork()))
	text := []byte(rd.Text)
	if r.Bool() {
		text = mut.Mutate(r, text, nil)
	}
	c.Docs = []run.Doc{run.Single(text)}
	c01Eval(t, c)
}


// ---- bodies handed to the schema library: regular expressions and small JSight schemas ----

var c01RegexAtoms = []string{"a", "[", "]", "^", "-", "z", "\\x00", "\\x{10FFFF}", "(", ")", "|", "*", "+", "?", "{0}", "{2,1}", "{1,2}", ".", "\\", "$", "\\d", "\\pL", "[^\\x00-\\x{10FFFF}]", "[a-z]", "(?i)", "\\b", "/", "é", "\\Q", "[[:alpha:]]"}

// c01StreamRegex: every regular expression of up to 3 (thorough 4) atoms as the body of a regex TYPE, a regex
// response and inside a type that a JSight schema references.
func c01StreamRegex(t *fw.T, shard, nshards int, emit func(*fw.Case)) {
	n := 0
	enumerate(c01RegexAtoms, t.Pick(3, 4), func(s string) {
		n++
		if n%nshards != shard {
			emit(nil)
			return
		}
		var doc string
		switch n % 5 {
		case 0:
			doc = "JSIGHT 0.3\nTYPE @r regex\n/" + s + "/\n"
		case 1:
			doc = "JSIGHT 0.3\nGET /a\n  200 regex\n  /" + s + "/\n"
		case 2:
			doc = "JSIGHT 0.3\nTYPE @r regex\n/" + s + "/\nTYPE @u\n{\"k\": @r, \"l\": [@r]}\nGET /a\n  200 @u\n"
		case 3:
			// the name is declared a second time, as something harmless: whatever is reported, the first body is still read
			doc = "JSIGHT 0.3\nTYPE @r regex\n/" + s + "/\nTYPE @r\n{}\nGET /a\n  200 @r\n"
		default:
			doc = "JSIGHT 0.3\nTYPE @r regex\n/" + s + "/\nTYPE @r regex\n/[a-z]/\nPOST /a/{id}\n  Path\n  {\"id\": @r}\n  Request regex\n  /" + s + "/\n  200 any\n"
		}
		emit(oneDocCase([]byte(doc), "", "regex body"))
	})
}

var c01SchemaAtoms = []string{"{", "}", "[", "]", "\"k\"", ":", ",", "1", "-", "1.5", "\"s\"", "true", "null", "@t", "|", "//", "{min: 1}", "{type: \"any\"}", "{or: [", "{enum: [", "{allOf: \"@t\"}", "{regex: \"[\"}", "{optional: true}", "/*", "*/", "\n", " ", "#", "@t :", "{precision: 0}", "{const: true}", "{additionalProperties: \"@t\"}"}

// c01StreamSchemaBodies: every sequence of up to 3 (thorough 4) schema tokens as the body of a TYPE next to a type @t.
func c01StreamSchemaBodies(t *fw.T, shard, nshards int, emit func(*fw.Case)) {
	n := 0
	enumerate(c01SchemaAtoms, t.Pick(3, 4), func(s string) {
		n++
		if n%nshards != shard {
			emit(nil)
			return
		}
		var doc string
		switch n % 4 {
		case 0:
			doc = "JSIGHT 0.3\nTYPE @t\n{\"a\": 1}\nTYPE @x\n" + s + "\n"
		case 1:
			doc = "JSIGHT 0.3\nTYPE @t\n\"str\"\nGET /a\n  200\n  " + s + "\n"
		case 2:
			// the name is declared a second time
			doc = "JSIGHT 0.3\nTYPE @t\n{\"a\": 1}\nTYPE @x\n" + s + "\nTYPE @x\n{}\nGET /a\n  200 @x\n"
		default:
			doc = "JSIGHT 0.3\nTYPE @t\n[1]\nPOST /a/{id}\n  Path\n  {\"id\": " + s + "}\n  Request\n    Headers\n    {\"h\": " + s + "}\n    Body any\n  200 any\n"
		}
		emit(oneDocCase([]byte(doc), "", "schema body"))
	})
}


// c01StreamRecursive: every way a user type can lead back to itself (alone, through an alias, through a list of
// alternatives, an array, a property, allOf, an or-rule) used from every place that follows references.
func c01StreamRecursive(t *fw.T, shard, nshards int, emit func(*fw.Case)) {
	shapes := []string{
		"TYPE @n\n@n | @leaf\n",
		"TYPE @n\n@leaf | @n\n",
		"TYPE @n\n@n\n",
		"TYPE @n\n@m\nTYPE @m\n@n\n",
		"TYPE @n\n@m | @leaf\nTYPE @m\n@n | @leaf\n",
		"TYPE @n\n[@n]\n",
		"TYPE @n\n{\"next\": @n}\n",
		"TYPE @n\n{\n  \"next\": @n // {optional: true}\n}\n",
		"TYPE @n\n{ // {allOf: \"@n\"}\n}\n",
		"TYPE @n\n{ // {allOf: \"@m\"}\n  \"a\": 1\n}\nTYPE @m\n{ // {allOf: \"@n\"}\n  \"b\": 1\n}\n",
		"TYPE @n\n1 // {or: [\"@n\", \"integer\"]}\n",
		"TYPE @n\n@n | @n\n",
		"TYPE @n\n{\n  @n : 1\n}\n",
		"TYPE @n\n{} // {additionalProperties: \"@n\"}\n",
		"TYPE @n\n@m\nTYPE @m\n@leaf | @n\n",
		"TYPE @n\n[@m]\nTYPE @m\n@n | @leaf\n",
	}
	hosts := []string{
		"POST /h\n  Request\n    Headers\n    @n\n    Body any\n  200 any\n",
		"GET /h\n  200\n    Headers\n    @n\n    Body any\n",
		"GET /p/{id}\n  Path\n  @n\n  200 any\n",
		"GET /p/{id}\n  Path\n  {\"id\": @n}\n  200 any\n",
		"GET /q\n  Query\n  @n\n  200 any\n",
		"GET /q\n  Query\n  {\"q\": @n}\n  200 any\n",
		"POST /b\n  Request @n\n  200 @n\n",
		"GET /b\n  200 [@n]\n",
		"GET /b\n  200\n    Body\n    @n | @leaf\n",
		"URL /rpc\n  Protocol json-rpc-2.0\n  Method m\n    Params\n    @n\n    Result\n    [@n]\n",
		"GET /b\n  200\n  { // {allOf: \"@n\"}\n    \"own\": 1\n  }\n",
		"GET /b\n  200\n  {\n    @n : 1\n  }\n",
		"GET /b\n  200\n  1 // {or: [\"@n\", \"string\"]}\n",
		"GET /b\n  200\n  {} // {additionalProperties: \"@n\"}\n",
		"SERVER @s\n  BaseUrl \"https://{env}.example/\"\n  {\"env\": @n}\n",
		"TYPE @user\n{\"a\": @n, \"b\": [@n], \"c\": @n | @leaf}\nGET /b\n  200 @user\n",
		"",
	}
	n := 0
	for _, sh := range shapes {
		for _, h := range hosts {
			for order := 0; order < 2; order++ {
				n++
				if n%nshards != shard {
					emit(nil)
					continue
				}
				leaf := "TYPE @leaf\n{\"v\": 1}\n"
				doc := "JSIGHT 0.3\n" + leaf + sh + h
				if order == 1 {
					doc = "JSIGHT 0.3\n" + h + sh + leaf
				}
				emit(oneDocCase([]byte(doc), "", "recursive type"))
			}
		}
	}
}

var c01PathAtoms = []string{"a", ".", "/", "{x}", "{}", "%", " ", "..", "{x", "é"}

// c01StreamPaths: every path of up to 4 (thorough 5) atoms as the path of an HTTP method, of a URL block and of a
// JSON-RPC URL, with and without a Tags directive (the automatic tag is computed from the path).
func c01StreamPaths(t *fw.T, shard, nshards int, emit func(*fw.Case)) {
	n := 0
	enumerate(c01PathAtoms, t.Pick(4, 5), func(s string) {
		n++
		if n%nshards != shard {
			emit(nil)
			return
		}
		p := quoteParam("/" + s)
		var doc string
		switch n % 4 {
		case 0:
			doc = "JSIGHT 0.3\nGET " + p + "\n  200 any\n"
		case 1:
			doc = "JSIGHT 0.3\nURL " + p + "\n  GET\n    200 any\n  POST\n    Request any\n    200 any\n"
		case 2:
			doc = "JSIGHT 0.3\nURL " + p + "\n  Protocol json-rpc-2.0\n  Method m\n    Params\n    {}\n"
		default:
			doc = "JSIGHT 0.3\nTAG @t\nURL " + p + "\n  Tags @t\n  GET\n    200 any\nGET " + p + "/more\n  200 any\n"
		}
		emit(oneDocCase([]byte(doc), "", "path"))
	})
}


// c01StreamLongLines: a fault on a line longer than the 200 bytes a diagnostic quotes; the tail of the line is made of
// letters, multi-byte characters, lone continuation bytes (not UTF-8) or NULs, and the line ends the file with or
// without a line break.
func c01StreamLongLines(t *fw.T, shard, nshards int, emit func(*fw.Case)) {
	tails := [][]byte{[]byte("a"), []byte("é"), {0x80}, {0xbf}, {0xe2, 0x82}, []byte("日"), {0xff}, {0xc3}}
	heads := []string{
		"JSIGHT 0.3\nGET /cats // ",                              // (completed below into a duplicate method)
		"JSIGHT 0.3\nINFO\n  Title \"",                           // unterminated quote
		"JSIGHT 0.3\nFOO ",                                       // unknown directive
		"JSIGHT 0.3\nTYPE @t // ",                                // annotation, then no body
		"JSIGHT 0.3\nURL /a\n  GET\n    200 any\n  GET # ",      // duplicate method in a URL, comment tail
		"JSIGHT 0.3\nGET /x\n  Description\n    ",               // description text, then nothing
	}
	n := 0
	for hi, h := range heads {
		for _, tail := range tails {
			for _, total := range []int{190, 197, 198, 199, 200, 201, 202, 203, 204, 260, 1000} {
				for _, end := range []string{"", "\n", "\r\n", "\r"} {
					n++
					if n%nshards != shard {
						emit(nil)
						continue
					}
					last := h[strings.LastIndexByte(h, '\n')+1:]
					line := []byte(last)
					for len(line) < total {
						line = append(line, tail...)
					}
					doc := append([]byte(h[:len(h)-len(last)]), line...)
					doc = append(doc, end...)
					if hi == 0 {
						doc = append([]byte("JSIGHT 0.3\nGET /cats\n  200 any\n"), doc[len("JSIGHT 0.3\n"):]...)
					}
					emit(oneDocCase(doc, "", "long error line"))
				}
			}
		}
	}
}
