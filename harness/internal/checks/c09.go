package checks

import (
	"fmt"
	"strings"

	"verifharness/internal/corpus"
	"verifharness/internal/fw"
	"verifharness/internal/gen"
	"verifharness/internal/jsonx"
	"verifharness/internal/mut"
	"verifharness/internal/run"
	"verifharness/internal/xrand"
)

func init() {
	fw.Register(&fw.Check{
		ID:    "C09",
		Level: "exploration",
		Rule: "every accepted project produced by the workloads is serialised with ToJson and ToJsonIndent and the result is checked by an invariant monitor: " +
			"valid UTF-8, parseable, no repeated key in any object (streaming token decoder), compact == indented as ordered values, interaction key == id == '<protocol> <method> <path>' of its own fields, " +
			"tag<->interaction references mutual, every usedUserTypes/usedUserEnums/inheritedFrom/reference names an existing entry, every request/response has a body whose format matches its notation, Title() == info.title. " +
			"families: corpus x newline modes; mutants of positive fixtures (only accepted ones count); token sequences; generated documents with hostile names (spaces, quotes, backslashes, non-ASCII, invalid UTF-8, ids that collide after formatting). " +
			"distinct_nontrivial = distinct catalog shapes (counts of interactions/tags/types/enums/servers + hostile-name class) among accepted outputs",
		Assumptions: []string{"only accepted projects are judged; rejected ones are counted"},
		Families: []fw.Family{
			{Name: "corpus", N: func(string) int { return len(corpus.All()) * 3 }, Gen: c01GenCorpus, Eval: c09Eval},
			{Name: "mutant", N: constN(60000, 2000000), Gen: c09GenMutant, Eval: c09Eval},
			{Name: "names", N: constN(90000, 1500000), Gen: c09GenNames, Eval: c09Eval},
			{Name: "tokens_rand", N: constN(20000, 300000), Gen: c01GenTokensRand, Eval: c09Eval},
			{Name: "models", N: constN(6000, 200000), Gen: genModelCase, Eval: c09EvalModel},
			{Name: "bodyless", N: constN(6000, 150000), Gen: c09GenBodyless, Eval: c09Eval},
			{Name: "references", N: constN(4000, 100000), Gen: c09GenReferences, Eval: c09Eval},
			{Name: "tag-name-collisions", N: constN(4000, 100000), Gen: c09GenTagCollisions, Eval: c09Eval},
		},
		Floors: map[string]int64{"accepted": 3000},
	})
}

type invFail struct{ sig, msg string }

// catalogInvariants checks one accepted observation.
func catalogInvariants(o *run.Obs) (fails []invFail, shape string) {
	add := func(sig, format string, a ...interface{}) {
		fails = append(fails, invFail{sig, fmt.Sprintf(format, a...)})
	}
	if o.JSONErr != "" {
		add("serialise-error", "serialisation failed: %s", o.JSONErr)
		return
	}
	cd, err := jsonx.Parse(o.JSON)
	if err != nil {
		add("compact-unparseable", "compact JSON does not parse: %v", err)
		return
	}
	id, err := jsonx.Parse(o.JSONIndent)
	if err != nil {
		add("indent-unparseable", "indented JSON does not parse: %v", err)
		return
	}
	for _, d := range cd.Dups {
		add("duplicate-key:"+dupClass(d), "object has a repeated key at %s", d)
		break
	}
	if d := jsonx.Diff(cd.Root, id.Root, "$"); d != "" {
		add("compact-vs-indent", "compact and indented forms differ at %s", d)
	}
	root := cd.Root
	if root.Kind != 'o' {
		add("root-not-object", "catalog is not an object")
		return
	}
	// Title
	wantTitle := root.Get("info").Get("title").S()
	if o.Title != wantTitle {
		add("title-mismatch", "Title() = %q but info.title = %q", o.Title, wantTitle)
	}
	types := root.Get("userTypes")
	enums := root.Get("userEnums")
	tags := root.Get("tags")
	inter := root.Get("interactions")
	if inter == nil || inter.Kind != 'o' || tags == nil || tags.Kind != 'o' {
		add("missing-collections", "catalog lacks interactions or tags objects")
		return
	}
	// interactions
	for i, k := range inter.Keys {
		v := inter.Vals[i]
		if v.Get("id").S() != k {
			add("interaction-key-vs-id", "interaction key %q != id %q", k, v.Get("id").S())
		}
		proto := v.Get("protocol").S()
		var want string
		switch proto {
		case "http":
			want = "http " + v.Get("httpMethod").S() + " " + v.Get("path").S()
		case "json-rpc-2.0":
			want = "json-rpc-2.0 " + v.Get("method").S() + " " + v.Get("path").S()
		default:
			add("interaction-protocol", "interaction %q has protocol %q", k, proto)
		}
		if want != "" && want != k {
			add("interaction-id-encoding", "interaction key %q does not encode its fields (%q)", k, want)
		}
		tl := v.Get("tags")
		if tl == nil || tl.Kind != 'a' || len(tl.Arr) == 0 {
			add("interaction-without-tag", "interaction %q has no tag", k)
		}
		for _, tn := range tl.Strings() {
			tg := tags.Get(tn)
			if tg == nil {
				add("tag-missing", "interaction %q names tag %q which does not exist", k, tn)
				continue
			}
			found := false
			for _, g := range tg.Get("interactionGroups").Arr0() {
				if g.Get("protocol").S() == proto {
					for _, iid := range g.Get("interactions").Strings() {
						if iid == k {
							found = true
						}
					}
				}
			}
			if !found {
				add("tag-not-mutual", "interaction %q names tag %q but the tag does not list it under %s", k, tn, proto)
			}
		}
		// request / responses
		if rq := v.Get("request"); rq != nil && rq.Kind == 'o' {
			checkBody(add, rq.Get("body"), "request of "+k)
		}
		for ri, rs := range v.Get("responses").Arr0() {
			checkBody(add, rs.Get("body"), fmt.Sprintf("response #%d of %s", ri, k))
		}
	}
	// tags -> interactions
	var walkTags func(ts *jsonx.Node)
	walkTags = func(ts *jsonx.Node) {
		for i, tk := range ts.Keys {
			tg := ts.Vals[i]
			if tg.Get("name").S() != tk {
				add("tag-key-vs-name", "tag key %q != name %q", tk, tg.Get("name").S())
			}
			for _, g := range tg.Get("interactionGroups").Arr0() {
				gp := g.Get("protocol").S()
				for _, iid := range g.Get("interactions").Strings() {
					iv := inter.Get(iid)
					if iv == nil {
						add("tag-dangling-interaction", "tag %q lists interaction %q which does not exist", tk, iid)
						continue
					}
					if iv.Get("protocol").S() != gp {
						add("tag-group-protocol", "tag %q lists %q under protocol %q", tk, iid, gp)
					}
					has := false
					for _, tn := range iv.Get("tags").Strings() {
						if tn == tk {
							has = true
						}
					}
					if !has {
						add("tag-not-mutual-2", "tag %q lists interaction %q which does not name the tag", tk, iid)
					}
				}
			}
			if ch := tg.Get("children"); ch != nil && ch.Kind == 'o' {
				walkTags(ch)
			}
		}
	}
	walkTags(tags)
	// references anywhere
	jsonx.Walk(root, "$", func(path string, n *jsonx.Node) {
		if n.Kind != 'o' {
			return
		}
		for _, u := range n.Get("usedUserTypes").Strings() {
			if types.Get(u) == nil {
				add("used-type-missing", "%s.usedUserTypes names %q which is not in userTypes", path, u)
			}
		}
		for _, u := range n.Get("usedUserEnums").Strings() {
			if enums.Get(u) == nil {
				add("used-enum-missing", "%s.usedUserEnums names %q which is not in userEnums", path, u)
			}
		}
		if inh := n.Get("inheritedFrom").S(); inh != "" && types.Get(inh) == nil {
			add("inherited-from-missing", "%s.inheritedFrom names %q which is not in userTypes", path, inh)
		}
		if n.Get("tokenType").S() == "reference" && n.Has("scalarValue") && !strings.Contains(path, ".rules") {
			for _, ref := range strings.Split(n.Get("scalarValue").S(), "|") {
				ref = strings.TrimSpace(ref)
				if strings.HasPrefix(ref, "@") && types.Get(ref) == nil {
					add("reference-missing", "%s references %q which is not in userTypes", path, ref)
				}
			}
		}
		if n.Get("key").S() == "enum" && n.Get("tokenType").S() == "reference" && strings.Contains(path, ".rules") {
			if ref := n.Get("scalarValue").S(); strings.HasPrefix(ref, "@") && enums.Get(ref) == nil {
				add("enum-rule-missing", "%s enum rule names %q which is not in userEnums", path, ref)
			}
		}
	})
	nTypes, nEnums, nServers := 0, 0, 0
	if types != nil {
		nTypes = len(types.Keys)
	}
	if enums != nil {
		nEnums = len(enums.Keys)
	}
	if s := root.Get("servers"); s != nil {
		nServers = len(s.Keys)
	}
	shape = fmt.Sprintf("i%d t%d ut%d ue%d s%d", len(inter.Keys), len(tags.Keys), nTypes, nEnums, nServers)
	return
}

func dupClass(path string) string {
	// keep the collection name only: $.interactions.<key> -> interactions
	parts := strings.Split(path, ".")
	if len(parts) >= 2 {
		return parts[1]
	}
	return "?"
}

func checkBody(add func(sig, format string, a ...interface{}), body *jsonx.Node, what string) {
	if body.IsNull() {
		add("body-missing", "%s has no body", what)
		return
	}
	format := body.Get("format").S()
	nota := body.Get("schema").Get("notation").S()
	want := map[string]string{"jsight": "json", "regex": "plainString", "any": "binary", "empty": "binary"}[nota]
	if want == "" || want != format {
		add("body-format", "%s: format %q does not match notation %q", what, format, nota)
	}
}

func c09Eval(t *fw.T, c *fw.Case) {
	for _, d := range c.Docs {
		o := t.Exec(d)
		t.Count(o.Outcome)
		if o.Outcome != run.Accepted {
			continue
		}
		fails, shape := catalogInvariants(o)
		for _, f := range fails {
			t.Violation(f.sig, f.msg+"; input "+fw.Short(d.Files[d.Root], 400))
		}
		t.Distinct(shape + " " + c.Meta["class"])
		t.Sample("accepted/"+c.Family, map[string]interface{}{"input": fw.Short(d.Files[d.Root], 200), "shape": shape, "json_bytes": len(o.JSON)})
	}
}

func c09GenMutant(r *xrand.Rand, idx int, tier string) *fw.Case {
	var pos []corpus.Entry
	for _, e := range corpus.Small(6000) {
		if e.HasJSON {
			pos = append(pos, e)
		}
	}
	base := pos[r.Intn(len(pos))]
	other := pos[r.Intn(len(pos))]
	b := mut.Mutate(r, base.Content, other.Content)
	return oneDocCase(b, base.Dir, "mutant of "+base.Path)
}

// hostile strings for names, paths, titles
var hostile = []string{
	"a b", "a  b", "a\tb", "a\"b", "a\\b", "a\\\\b", "é", "日本", "a\xffb", "\xc3", "\xff", "a /b", "/b /a", "a%20b", "a_b", "a__b", "a%b",
	"a#b", "a//b", "a/*b*/", "{id}", "{i d}", "a|b", "@a", "[a]", "(", ")", "a.b", "..", "a'b", "<a>", "&amp;", " ", "a\u0000b"[:1] + "b",
}

func quoteParam(s string) string {
	s = strings.ReplaceAll(s, "\\", "\\\\")
	s = strings.ReplaceAll(s, "\"", "\\\"")
	return "\"" + s + "\""
}

func c09GenNames(r *xrand.Rand, idx int, tier string) *fw.Case {
	h := func() string { return hostile[r.Intn(len(hostile))] }
	if idx%7 == 0 {
		// targeted: two entries whose names differ only in a byte that serialisation may fold
		a, b := []string{"\xc3", "\xff", "é", "e\u0301", "\u2028", "<", "&", "a b", "a  b", "a\tb", "A"}[r.Intn(11)], []string{"\xff", "\xc3", "\xfe", "é", "\u2029", "\\u003c", "a b", "a"}[r.Intn(8)]
		var sb strings.Builder
		sb.WriteString("JSIGHT 0.3\n")
		switch r.Intn(3) {
		case 0:
			sb.WriteString("GET " + quoteParam("/p/"+a) + "\n  200 any\nGET " + quoteParam("/p/"+b) + "\n  200 any\n")
		case 1:
			sb.WriteString("URL /r\n  Protocol json-rpc-2.0\n  Method " + quoteParam("m"+a) + "\n    Params\n    {}\n  Method " + quoteParam("m"+b) + "\n    Params\n    {}\n")
		default:
			sb.WriteString("URL " + quoteParam("/"+a) + "\n  Protocol json-rpc-2.0\n  Method \"x /y\"\n    Params\n    {}\nURL " + quoteParam("/y /"+a) + "\n  Protocol json-rpc-2.0\n  Method x\n    Params\n    {}\n")
		}
		c := oneDocCase([]byte(sb.String()), "", "near-colliding names")
		c.Meta = map[string]string{"class": "near-collision"}
		return c
	}
	var sb strings.Builder
	sb.WriteString("JSIGHT 0.3\n")
	class := ""
	if r.Chance(1, 2) {
		sb.WriteString("INFO\n  Title " + quoteParam(h()) + "\n")
		if r.Bool() {
			sb.WriteString("  Version " + quoteParam(h()) + "\n")
		}
		class += "info "
	}
	if r.Chance(1, 3) {
		sb.WriteString("SERVER @s1 // " + h() + "\n  BaseUrl " + quoteParam("https://"+h()) + "\n")
		class += "server "
	}
	nTypes := r.Intn(3)
	for i := 0; i < nTypes; i++ {
		fmt.Fprintf(&sb, "TYPE @t%d // %s\n{\"%s\": \"%s\"}\n", i, h(), jsonEsc(h()), jsonEsc(h()))
	}
	n := r.Range(1, 5)
	for i := 0; i < n; i++ {
		switch r.Intn(4) {
		case 0, 1: // http methods whose paths differ in hostile ways
			m := []string{"GET", "POST", "PUT", "PATCH", "DELETE"}[r.Intn(5)]
			p := "/" + h()
			if r.Bool() {
				p += "/" + h()
			}
			sb.WriteString(m + " " + quoteParam(p) + " // " + h() + "\n  200 any\n")
			class += "http "
		case 2: // json-rpc with hostile method names under (possibly hostile) URLs
			u := "/" + []string{"a", "b /a", "r", h()}[r.Intn(4)]
			sb.WriteString("URL " + quoteParam(u) + "\n  Protocol json-rpc-2.0\n")
			k := r.Range(1, 3)
			for j := 0; j < k; j++ {
				mn := []string{"a", "a /b", "m", h()}[r.Intn(4)]
				sb.WriteString("  Method " + quoteParam(mn) + "\n    Params\n    {}\n")
			}
			class += "rpc "
		default: // URL block with two methods
			u := "/" + h()
			sb.WriteString("URL " + quoteParam(u) + "\n  GET\n    200 any\n  POST\n    Request any\n    200 empty\n")
			class += "url "
		}
	}
	c := oneDocCase([]byte(sb.String()), "", "hostile names")
	c.Meta = map[string]string{"class": class}
	return c
}

func jsonEsc(s string) string {
	s = strings.ReplaceAll(s, "\\", "\\\\")
	s = strings.ReplaceAll(s, "\"", "\\\"")
	s = strings.ReplaceAll(s, "\t", "\\t")
	return s
}

// c09EvalModel renders a generated API model (random style) and applies the invariants to its catalog.
func c09EvalModel(t *fw.T, c *fw.Case) {
	m, r := modelOf(c, gen.Options{MaxBlocks: 16, AllowAllOf: true, DeepAllOf: true})
	rd := gen.Render(m, gen.RandomStyle(r.Fork()))
	d := run.Single([]byte(rd.Text))
	d.FixedSeed = true
	c.Docs = []run.Doc{d}
	c.Meta["class"] = "model"
	c09Eval(t, c)
}

// c09GenBodyless: methods whose requests / responses have, in every combination, a body on the line, a Body child,
// only Headers, or nothing: whatever is accepted must still satisfy "every request and response has a body".
func c09GenBodyless(r *xrand.Rand, idx int, tier string) *fw.Case {
	var sb strings.Builder
	sb.WriteString("JSIGHT 0.3\nTYPE @t\n  {\"a\": 1}\n")
	nm := r.Range(1, 3)
	for m := 0; m < nm; m++ {
		verb := []string{"GET", "POST", "PUT", "PATCH", "DELETE"}[r.Intn(5)]
		fmt.Fprintf(&sb, "%s /m%d\n", verb, m)
		if r.Chance(1, 2) {
			switch r.Intn(5) {
			case 0:
				sb.WriteString("  Request @t\n")
			case 1:
				sb.WriteString("  Request\n    Headers\n      {\"h\": \"v\"}\n") // headers only
			case 2:
				sb.WriteString("  Request\n    Headers\n      {\"h\": \"v\"}\n    Body any\n")
			case 3:
				sb.WriteString("  Request any\n    Headers\n      {\"h\": \"v\"}\n")
			default:
				sb.WriteString("  Request\n    Body\n      {\"b\": 2}\n")
			}
		}
		nr := r.Range(1, 4)
		for k := 0; k < nr; k++ {
			code := []string{"200", "201", "400", "404", "500"}[r.Intn(5)]
			switch r.Intn(6) {
			case 0:
				sb.WriteString("  " + code + " any\n")
			case 1:
				sb.WriteString("  " + code + "\n    Headers\n      {\"h\": \"v\"}\n") // headers only: no body
			case 2:
				sb.WriteString("  " + code + "\n    Headers\n      {\"h\": \"v\"}\n    Body empty\n")
			case 3:
				sb.WriteString("  " + code + " @t\n    Headers\n      {\"h\": \"v\"}\n")
			case 4:
				sb.WriteString("  " + code + "\n    Body regex\n      /ab/\n")
			default:
				sb.WriteString("  " + code + " [@t] // note\n")
			}
		}
	}
	c := oneDocCase([]byte(sb.String()), "", "bodies in every combination")
	c.Meta = map[string]string{"class": "bodyless"}
	return c
}


// c09GenReferences: every way of naming user types and enums (single, lists with and without blanks around the bar, or-rules,
// type rules, enum rules, key references, allOf) in every host that keeps its own list of used types - Path, Query, Headers,
// bodies, TYPE, JSON-RPC - so that "every used type or enum named anywhere exists" is exercised where the lists are built.
func c09GenReferences(r *xrand.Rand, idx int, tier string) *fw.Case {
	bars := []string{" | ", "|", " |", "| ", "  |  ", "\t|\t"}
	bar := bars[r.Intn(len(bars))]
	scal := []string{"@a", "@b", "@r", "@c"}
	pick := func() string { return scal[r.Intn(len(scal))] }
	ref := func() string {
		switch r.Intn(9) {
		case 0:
			return pick()
		case 1:
			return pick() + bar + pick()
		case 2:
			return pick() + bar + pick() + bar + pick()
		case 3:
			return "1 // {or: [\"" + pick() + "\", \"integer\"]}"
		case 4:
			return "1 // {or: [{type: \"" + pick() + "\"}, {type: \"string\"}]}"
		case 5:
			return "\"x\" // {type: \"" + pick() + "\"}"
		case 6:
			return "\"v1\" // {enum: @e}"
		case 7:
			return "1 // {or: [{min: 1}, {type: \"string\"}]}"
		default:
			return pick() + bar + "@nosuch"
		}
	}
	var sb strings.Builder
	sb.WriteString("JSIGHT 0.3\nTYPE @a\n\"s\"\nTYPE @b\n1\nTYPE @c\n  true\nTYPE @r regex\n/[a-z]+/\nENUM @e\n[\"v1\", \"v2\"]\nTYPE @o\n{\"k\": 1}\n")
	host := r.Intn(7)
	switch host {
	case 0:
		sb.WriteString("GET /x/{id}\n  Path\n  {\n    \"id\": " + ref() + "\n  }\n  200 any\n")
	case 1:
		sb.WriteString("URL /x/{id}/{other}\n  Path\n  {\n    \"id\": " + ref() + ",\n    \"other\": " + ref() + "\n  }\n  GET\n    200 any\n")
	case 2:
		sb.WriteString("GET /q\n  Query\n  {\n    \"q\": " + ref() + "\n  }\n  200 any\n")
	case 3:
		sb.WriteString("POST /h\n  Request\n    Headers\n    {\n      \"h\": " + ref() + "\n    }\n    Body any\n  200\n    Headers\n    {\n      \"h\": " + ref() + "\n    }\n    Body any\n")
	case 4:
		sb.WriteString("TYPE @user\n{\n  \"p\": " + ref() + ",\n  @a : 1,\n  \"l\": [" + ref() + "]\n}\nGET /b\n  200 @user\n")
	case 5:
		sb.WriteString("GET /b\n  200\n  {\n    \"p\": " + ref() + "\n  }\nPOST /b\n  Request " + pick() + bar + pick() + "\n  200 [" + pick() + "]\n")
	default:
		sb.WriteString("URL /rpc\n  Protocol json-rpc-2.0\n  Method m\n    Params\n    {\n      \"p\": " + ref() + "\n    }\n    Result\n    { // {allOf: \"@o\"}\n      \"r\": " + ref() + "\n    }\n")
	}
	c := oneDocCase([]byte(sb.String()), "", "reference spellings")
	c.Meta = map[string]string{"class": fmt.Sprintf("refs host%d", host)}
	return c
}


// c09GenTagCollisions: declared tags whose names are the names automatic path tags get (@cats for /cats, @a__b for /a_b,
// @_ for /), used explicitly by some interactions while others on those paths have no Tags: whatever the library does
// with the coincidence, tags and interactions must keep referring to each other.
func c09GenTagCollisions(r *xrand.Rand, idx int, tier string) *fw.Case {
	segs := []string{"cats", "dogs", "a_b", "a__b", "x.y"}
	auto := map[string]string{"cats": "@cats", "dogs": "@dogs", "a_b": "@a__b", "a__b": "@a____b", "x.y": "@x.y"}
	var blocks []string
	var declared []string
	for _, sg := range segs {
		if r.Chance(1, 2) {
			name := auto[sg]
			if r.Chance(1, 6) {
				name = "@_" // the automatic name of the root path
			}
			b := "TAG " + name
			if r.Bool() {
				b += " // Title of " + sg
			}
			b += "\n"
			if r.Chance(1, 3) {
				b += "  Description\n    about " + sg + "\n"
			}
			dup := false
			for _, d := range declared {
				if d == name {
					dup = true
				}
			}
			if !dup {
				declared = append(declared, name)
				blocks = append(blocks, b)
			}
		}
	}
	if len(declared) == 0 {
		declared = append(declared, "@cats")
		blocks = append(blocks, "TAG @cats\n")
	}
	verbs := []string{"GET", "POST", "PUT", "DELETE"}
	n := r.Range(2, 6)
	for i := 0; i < n; i++ {
		sg := segs[r.Intn(len(segs))]
		path := fmt.Sprintf("/%s/p%d", sg, i)
		if r.Chance(1, 8) {
			path = "/"
		}
		tags := ""
		if r.Chance(1, 2) {
			tags = "  Tags " + declared[r.Intn(len(declared))] + "\n"
		}
		switch r.Intn(3) {
		case 0:
			blocks = append(blocks, verbs[i%4]+" "+path+"\n"+tags+"  200 any\n")
		case 1:
			ut := ""
			if r.Chance(1, 3) {
				ut = "  Tags " + declared[r.Intn(len(declared))] + "\n"
			}
			blocks = append(blocks, "URL "+path+"\n"+ut+"  "+verbs[i%4]+"\n  "+tags+"    200 any\n")
		default:
			blocks = append(blocks, "URL "+path+"\n  Protocol json-rpc-2.0\n  Method m\n  "+tags+"    Params\n    {}\n")
		}
	}
	var sb strings.Builder
	sb.WriteString("JSIGHT 0.3\n")
	for _, i := range r.Perm(len(blocks)) {
		sb.WriteString(blocks[i])
	}
	c := oneDocCase([]byte(sb.String()), "", "declared tags named like automatic ones")
	c.Meta = map[string]string{"class": "tag-collisions"}
	return c
}
