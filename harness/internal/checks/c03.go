package checks

import (
	"github.com/jsightapi/jsight-api-go-library/kit"
	"bufio"
	"crypto/sha1"
	"encoding/hex"
	"fmt"
	"os"
	"os/exec"
	"path/filepath"
	"strconv"
	"strings"
	"sync"

	"verifharness/internal/corpus"
	"verifharness/internal/fw"
	"verifharness/internal/gen"
	"verifharness/internal/run"
	"verifharness/internal/xrand"
)

func init() {
	fw.Register(&fw.Check{
		ID:    "C03",
		Level: "exploration",
		Rule: "each case is one project processed K times in one process (K=12 quick, 40 thorough; Go re-randomises map iteration on every range), and the deciding fields " +
			"(accepted/rejected, Error() with trace, index, line, quote, JSON bytes) must be byte-identical; a subset is re-run while 15 other goroutines process other projects; " +
			"the driver then replays a fixed case list in several fresh processes (different GOMAXPROCS) and compares fingerprints across processes. " +
			"families: fixture corpus; generated documents with >=2 simultaneous faults of one kind or >=3 entries in every internally hashed collection (macros, enum rules, path parameters, tags, similar paths, type tables), " +
			"regex bodies with and without the fixed-seed option; complete projects with 2-4 faults of different final validations (the last stage of the compiler); " +
			"the same project under a file name that was used before for other texts; two texts that stand at one path one after the other and differ in the line of an INCLUDE whose file has a fault found after scanning (A, B, A at one path; B also as the first project at a fresh path; the include trace must name the line of the text processed); a healthy graph of user types processed before and after rejected versions of itself (what a failed project leaves behind must not matter). distinct_nontrivial = distinct (fault-kind set | outcome class) among documents with >=2 simultaneous faults or >=3 hashed entries",
		Assumptions: []string{
			"'all map-iteration orders' is sampled by repetition: a k-way choice hidden behind a map survives K repetitions with probability about (1/k)^(K-1)",
		},
		Families: []fw.Family{
			{Name: "corpus", N: func(string) int { return len(corpus.All()) }, Gen: c03GenCorpus, Eval: c03Eval},
			{Name: "multifault", N: constN(2500, 60000), Gen: c03GenMultiFault, Eval: c03Eval},
			{Name: "final-stage-faults", N: constN(300, 6000), Gen: c03GenFinalStage, Eval: c03Eval},
			{Name: "after-other-projects", N: constN(600, 15000), Gen: c03GenMultiFault, Eval: c03EvalHistory},
			{Name: "after-failed-projects", N: constN(500, 12000), Gen: c03GenAfterFailure, Eval: c03EvalAfterFailure},
			{Name: "rejected-after-rejected", N: func(string) int { return len(c03Rejected) * len(c03Rejected) }, Gen: func(r *xrand.Rand, idx int, tier string) *fw.Case {
				return &fw.Case{Ints: map[string]int{"i": idx / len(c03Rejected), "j": idx % len(c03Rejected)}, Docs: []run.Doc{{}}}
			}, Eval: c03EvalRejectedPair},
			{Name: "same-path-moved-include", N: func(string) int { return c03SamePathN() }, Gen: func(r *xrand.Rand, idx int, tier string) *fw.Case {
				return &fw.Case{Ints: map[string]int{"i": idx}, Docs: []run.Doc{{}}}
			}, Eval: c03EvalSamePath},
			{Name: "concurrent", N: constN(150, 3000), Gen: c03GenMultiFault, Eval: c03EvalConcurrent},
			{Name: "concurrent-accepted", N: constN(400, 8000), Gen: genModelCase, Eval: c03EvalConcurrentModel},
		},
		Floors: map[string]int64{"repetitions": 20000, "multi_entry_documents": 1000},
		Post:   c03Post,
	})
	fw.RegisterAux("c03fp", c03AuxFingerprint)
	fw.RegisterAux("c03rel", c03AuxRelative)
}

func fingerprint(o *run.Obs) string {
	h := sha1.New()
	fmt.Fprintf(h, "%s|%s|%d|%d|%s|%s|%s|", o.Outcome, o.ErrText, o.Index, o.Line, o.Quote, o.NewErr, o.PanicVal)
	h.Write(o.JSON)
	h.Write([]byte("|"))
	h.Write(o.JSONIndent)
	return hex.EncodeToString(h.Sum(nil))[:20]
}

func describe(o *run.Obs) string {
	switch o.Outcome {
	case run.Accepted:
		return fmt.Sprintf("accepted json=%s", fw.Short(o.JSON, 300))
	case run.Rejected:
		return fmt.Sprintf("rejected %q index=%d line=%d quote=%q", o.ErrText, o.Index, o.Line, o.Quote)
	}
	return o.Outcome + " " + o.NewErr + o.PanicVal
}

func c03GenCorpus(r *xrand.Rand, idx int, tier string) *fw.Case {
	e := corpus.All()[idx]
	c := oneDocCase(e.Content, e.Dir, e.Path)
	c.Docs[0].FixedSeed = idx%2 == 0
	return c
}

func c03Sig(a, b *run.Obs) string {
	if a.Outcome != b.Outcome {
		return "verdict-differs"
	}
	if a.Outcome == run.Rejected {
		if a.Msg != b.Msg {
			return "message-differs:" + run.MsgTemplate(a.Msg)
		}
		return "location-differs:" + run.MsgTemplate(a.Msg)
	}
	return "json-differs"
}

func c03Eval(t *fw.T, c *fw.Case) {
	d := c.Docs[0]
	k := t.Pick(12, 40)
	first := t.Exec(d)
	fp := fingerprint(first)
	t.Count("repetitions")
	for i := 1; i < k; i++ {
		o := t.Exec(d)
		t.Count("repetitions")
		if f := fingerprint(o); f != fp {
			t.Violation(c03Sig(first, o), fmt.Sprintf("the same project gave two results in one process (repetition %d):\n  A: %s\n  B: %s\n  input %s",
				i, describe(first), describe(o), fw.Short(d.Files[d.Root], 500)))
			break
		}
	}
	if c.Meta["kinds"] != "" {
		t.Count("multi_entry_documents")
		t.Distinct(c.Meta["kinds"] + " | " + outcomeClass(first))
		t.Sample("multifault", map[string]interface{}{"kinds": c.Meta["kinds"], "input": fw.Short(d.Files[d.Root], 300), "result": describe(first)})
	}
}

// c03EvalConcurrentModel: an accepted generated document (bodies that are references to user types, inherited
// properties, regex types, enums - everything whose example or content is built from shared pieces) is serialised while
// 15 goroutines process other generated documents of the same kind.
func c03EvalConcurrentModel(t *fw.T, c *fw.Case) {
	m, r := modelOf(c, gen.Options{MaxBlocks: 10, AllowAllOf: true, Rich: true})
	d := run.Single([]byte(gen.Render(m, nil).Text))
	c.Docs = []run.Doc{d}
	var noise []run.Doc
	for g := 0; g < 15; g++ {
		nm := gen.Generate(r.Fork(), gen.Options{MaxBlocks: 8, AllowAllOf: true, Rich: true})
		noise = append(noise, run.Single([]byte(gen.Render(nm, nil).Text)))
	}
	c03Concurrent(t, c, d, noise)
}

func c03EvalConcurrent(t *fw.T, c *fw.Case) {
	ee := corpus.Small(4000)
	r := xrand.Derive(t.Seed, c.Index, "C03", "noise")
	var noise []run.Doc
	for g := 0; g < 15; g++ {
		e := ee[r.Intn(len(ee))]
		noise = append(noise, memDoc(e.Content, e.Dir))
	}
	c03Concurrent(t, c, c.Docs[0], noise)
}

func c03Concurrent(t *fw.T, c *fw.Case, d run.Doc, noise []run.Doc) {
	solo := run.ExecConcurrent(d)
	fp := fingerprint(solo)
	t.Count("concurrent_subject_" + solo.Outcome)
	// noise: other projects processed at the same time
	stop := make(chan struct{})
	var wg sync.WaitGroup
	for _, nd := range noise {
		wg.Add(1)
		go func(nd run.Doc) {
			defer wg.Done()
			for {
				select {
				case <-stop:
					return
				default:
				}
				run.ExecConcurrent(nd)
			}
		}(nd)
	}
	var bad *run.Obs
	for i := 0; i < 6; i++ {
		o := run.ExecConcurrent(d)
		t.Count("repetitions")
		t.Count("concurrent_repetitions")
		if fingerprint(o) != fp {
			bad = o
			break
		}
	}
	close(stop)
	wg.Wait()
	if bad != nil {
		t.Violation("under-concurrency:"+c03Sig(solo, bad), fmt.Sprintf("result differs while 15 other goroutines process other projects:\n  alone: %s\n  concurrent: %s\n  input %s",
			describe(solo), describe(bad), fw.Short(d.Files[d.Root], 500)))
	}
}

// ---- documents aimed at hashed collections ----

type faultKind struct {
	name string
	gen  func(sb *strings.Builder, k int, u *int)
}

var c03Kinds = []faultKind{
	{"self-recursive-macros", func(sb *strings.Builder, k int, u *int) {
		for i := 0; i < k; i++ {
			*u++
			fmt.Fprintf(sb, "MACRO @rm%d\n(\n  PASTE @rm%d\n)\n", *u, *u)
		}
	}},
	{"mutually-recursive-macros", func(sb *strings.Builder, k int, u *int) {
		base := *u
		for i := 0; i < k; i++ {
			*u++
			fmt.Fprintf(sb, "MACRO @mm%d\n(\n  TYPE @mmt%d\n  1\n  PASTE @mm%d\n)\n", base+1+i, base+1+i, base+1+(i+1)%k)
		}
		fmt.Fprintf(sb, "PASTE @mm%d\n", base+1)
	}},
	{"unused-path-parameters", func(sb *strings.Builder, k int, u *int) {
		*u++
		fmt.Fprintf(sb, "GET /pp%d/{id}\n  Path\n  {\n    \"id\": 1", *u)
		for i := 0; i < k; i++ {
			*u++
			fmt.Fprintf(sb, ",\n    \"extra%d\": %d", *u, i)
		}
		sb.WriteString("\n  }\n  200 any\n")
	}},
	{"undefined-tags", func(sb *strings.Builder, k int, u *int) {
		for i := 0; i < k; i++ {
			*u++
			fmt.Fprintf(sb, "GET /ut%d\n  Tags @nosuch%d\n  200 any\n", *u, *u)
		}
	}},
	{"undefined-type-refs", func(sb *strings.Builder, k int, u *int) {
		for i := 0; i < k; i++ {
			*u++
			fmt.Fprintf(sb, "TYPE @r%d\n{\"a\": @undefined%d}\n", *u, *u)
		}
	}},
	{"duplicate-types", func(sb *strings.Builder, k int, u *int) {
		for i := 0; i < k; i++ {
			*u++
			fmt.Fprintf(sb, "TYPE @d%d\n1\nTYPE @d%d\n2\n", *u, *u)
		}
	}},
	{"undefined-enums", func(sb *strings.Builder, k int, u *int) {
		for i := 0; i < k; i++ {
			*u++
			fmt.Fprintf(sb, "TYPE @ue%d\n{\n  \"a\": 1 // {enum: @noenum%d}\n}\n", *u, *u)
		}
	}},
	{"undefined-allof-bases", func(sb *strings.Builder, k int, u *int) {
		for i := 0; i < k; i++ {
			*u++
			fmt.Fprintf(sb, "TYPE @ab%d\n{ // {allOf: \"@nobase%d\"}\n  \"a\": 1\n}\n", *u, *u)
		}
	}},
	{"undefined-response-types", func(sb *strings.Builder, k int, u *int) {
		for i := 0; i < k; i++ {
			*u++
			fmt.Fprintf(sb, "GET /rt%d\n  200 @nort%d\n", *u, *u)
		}
	}},
	{"similar-paths", func(sb *strings.Builder, k int, u *int) {
		for i := 0; i < k; i++ {
			*u++
			fmt.Fprintf(sb, "GET /sp%d/{x}\n  200 any\nGET /sp%d/{y}\n  200 any\n", *u, *u)
		}
	}},
	{"infinite-type-recursion", func(sb *strings.Builder, k int, u *int) {
		for i := 0; i < k; i++ {
			*u++
			fmt.Fprintf(sb, "TYPE @ra%d\n{\"b\": @rb%d}\nTYPE @rb%d\n{\"a\": @ra%d}\n", *u, *u, *u, *u)
		}
	}},
	{"type-not-found-in-or", func(sb *strings.Builder, k int, u *int) {
		for i := 0; i < k; i++ {
			*u++
			fmt.Fprintf(sb, "TYPE @or%d\n{\n  \"a\": @or%d, // {optional: true}\n  \"b\": @nf%d | @or%d\n}\n", *u, *u, *u, *u)
		}
	}},
	{"several-duplicated-path-params", func(sb *strings.Builder, k int, u *int) {
		*u++
		var names []string
		for i := 0; i < k; i++ {
			names = append(names, fmt.Sprintf("{q%d}", i))
		}
		fmt.Fprintf(sb, "GET /dp%d/%s/again/%s\n  200 any\n", *u, strings.Join(names, "/"), strings.Join(names, "/"))
	}},
	{"several-empty-path-params", func(sb *strings.Builder, k int, u *int) {
		*u++
		fmt.Fprintf(sb, "GET /ep%d/%s\n  200 any\n", *u, strings.TrimSuffix(strings.Repeat("{}/x/", k), "/x/"))
	}},
	{"several-unknown-path-properties-two-paths", func(sb *strings.Builder, k int, u *int) {
		for j := 0; j < 2; j++ {
			*u++
			fmt.Fprintf(sb, "GET /up%d/{id}\n  Path\n  {\n    \"id\": 1", *u)
			for i := 0; i < k; i++ {
				fmt.Fprintf(sb, ",\n    \"zz%d_%d\": %d", *u, i, i)
			}
			sb.WriteString("\n  }\n  200 any\n")
		}
	}},
	{"several-duplicate-enums-servers-tags", func(sb *strings.Builder, k int, u *int) {
		for i := 0; i < k; i++ {
			*u++
			fmt.Fprintf(sb, "ENUM @de%d\n[1]\nENUM @de%d\n[2]\nSERVER @ds%d\n  BaseUrl \"https://a/\"\nSERVER @ds%d\n  BaseUrl \"https://b/\"\nTAG @dt%d\nTAG @dt%d\n", *u, *u, *u, *u, *u, *u)
		}
	}},
	{"several-non-object-allof-bases", func(sb *strings.Builder, k int, u *int) {
		for i := 0; i < k; i++ {
			*u++
			fmt.Fprintf(sb, "TYPE @nb%d\n1\nTYPE @nu%d\n{ // {allOf: \"@nb%d\"}\n  \"a\": 1\n}\n", *u, *u, *u)
		}
	}},
	{"several-headers-not-object", func(sb *strings.Builder, k int, u *int) {
		for i := 0; i < k; i++ {
			*u++
			fmt.Fprintf(sb, "GET /hn%d\n  200\n    Headers\n    [1]\n    Body any\n", *u)
		}
	}},
	{"empty-bodies", func(sb *strings.Builder, k int, u *int) {
		for i := 0; i < k; i++ {
			*u++
			fmt.Fprintf(sb, "POST /eb%d\n  Request\n", *u)
		}
	}},
	{"checker-faults-on-a-type-cycle", func(sb *strings.Builder, k int, u *int) {
		// k+1 types on one cycle, the first k of them with a fault only the checker finds (value against min / max / a rule
		// that does not fit the type); found by an independent reviewer: fixed in 27b9f85
		*u++
		n := k + 1
		for i := 0; i < n; i++ {
			fault := ""
			if i < k {
				fault = []string{fmt.Sprintf(",\n  \"bad\": %d // {min: %d}", i, 100+i), fmt.Sprintf(",\n  \"bad\": %d // {max: %d}", 50+i, i), fmt.Sprintf(",\n  \"bad\": \"s\" // {minLength: %d}", 5+i)}[(i+*u)%3]
			}
			fmt.Fprintf(sb, "TYPE @cy%d_%d\n{\n  \"next\": @cy%d_%d // {optional: true}%s\n}\n", *u, i, *u, (i+1)%n, fault)
		}
	}},
	{"allof-faults-on-a-type-cycle", func(sb *strings.Builder, k int, u *int) {
		*u++
		n := k + 1
		for i := 0; i < n; i++ {
			rule := ""
			if i < k {
				rule = fmt.Sprintf(" // {allOf: \"@nobase%d_%d\"}", *u, i)
			}
			fmt.Fprintf(sb, "TYPE @ca%d_%d\n{%s\n  \"next%d\": @ca%d_%d // {optional: true}\n}\n", *u, i, rule, i, *u, (i+1)%n)
		}
	}},
	{"repeated-tags-in-one-directive", func(sb *strings.Builder, k int, u *int) {
		// accepted: the order of an interaction's tags is the order written, also when a name is written twice
		*u++
		var names []string
		for i := 0; i < k+1; i++ {
			fmt.Fprintf(sb, "TAG @rt%d_%d\n", *u, i)
			names = append(names, fmt.Sprintf("@rt%d_%d", *u, i))
		}
		fmt.Fprintf(sb, "GET /rt%d\n  Tags %s %s\n  200 any\n", *u, strings.Join(names, " "), names[0])
		fmt.Fprintf(sb, "URL /rtu%d\n  Tags %s %s %s\n  POST\n    Request any\n    200 any\n", *u, names[len(names)-1], strings.Join(names, " "), names[1%len(names)])
	}},
	{"faults-of-different-final-validations", func(sb *strings.Builder, k int, u *int) {
		// the catalog is complete; the last stage (info, request bodies, response bodies, headers) finds two or more faults
		// that belong to different validations of that stage, with healthy interactions in between so that none is instant
		*u++
		pieces := []string{
			fmt.Sprintf("POST /fvb%d\n  Request\n    Headers\n    {\"h\": \"v\"}\n  200 any\n", *u),
			fmt.Sprintf("GET /fvc%d\n  20%d\n    Headers\n    {\"h\": \"v\"}\n", *u, k%5),
			fmt.Sprintf("GET /fvd%d\n  200\n    Headers\n    @fvnon%d\n    Body any\nTYPE @fvnon%d\n[1]\n", *u, *u, *u),
			"INFO\n",
		}
		first := (*u + k) % len(pieces)
		n := 2 + k%3
		for i := 0; i < n; i++ {
			sb.WriteString(pieces[(first+i)%len(pieces)])
			for j := 0; j < 20*k; j++ {
				fmt.Fprintf(sb, "GET /fvh%d_%d_%d\n  200 any\n", *u, i, j)
			}
		}
	}},
	{"override-inherited", func(sb *strings.Builder, k int, u *int) {
		for i := 0; i < k; i++ {
			*u++
			fmt.Fprintf(sb, "TYPE @ob%d\n{\"p\": 1}\nTYPE @oc%d\n{ // {allOf: \"@ob%d\"}\n  \"p\": 2\n}\n", *u, *u, *u)
		}
	}},
}

// healthy content with >=3 entries per hashed collection
func c03Healthy(sb *strings.Builder, r *xrand.Rand, k int, u *int) {
	base := *u
	for i := 0; i < k; i++ {
		*u++
		fmt.Fprintf(sb, "ENUM @en%d // e%d\n[\"v%d\", %d, true]\n", base+i, i, i, i)
	}
	for i := 0; i < k; i++ {
		// regex types referenced from several schemas: every use must see the same example
		fmt.Fprintf(sb, "TYPE @rx%d regex\n/[a-z]+@[a-z]{%d}/\n", base+i, i+1)
	}
	for i := 0; i < k; i++ {
		fmt.Fprintf(sb, "TYPE @ru%d\n{\n  \"m\": @rx%d,\n  \"n\": [@rx%d]\n}\n", base+i, base+i, base+(i+1)%k)
	}
	for i := 0; i < k; i++ {
		// forward and backward references between types, enums used inside referenced types
		fmt.Fprintf(sb, "TYPE @ty%d // t%d\n{\n  \"e\": \"v%d\", // {enum: @en%d}\n  \"next\": @ty%d // {optional: true}\n}\n", base+i, i, i, base+i, base+(i+1)%k)
	}
	for i := 0; i < k; i++ {
		fmt.Fprintf(sb, "TAG @tg%d // tag %d\n", base+i, i)
	}
	for i := 0; i < k; i++ {
		fmt.Fprintf(sb, "SERVER @sv%d\n  BaseUrl \"https://h%d/\"\n", base+i, i)
	}
	for i := 0; i < k; i++ {
		fmt.Fprintf(sb, "MACRO @mc%d\n(\n  40%d any\n)\n", base+i, i%10)
	}
	for i := 0; i < k; i++ {
		fmt.Fprintf(sb, "URL /h%d/{a%d}/x/{b%d}\n  Tags @tg%d @tg%d\n  Path\n  {\n    \"a%d\": 1,\n    \"b%d\": \"s\"\n  }\n  GET // g%d\n    200 @ty%d\n    PASTE @mc%d\n  POST\n    Request regex\n    /ab%d[0-9]{2}/\n    200 regex\n    /x+%d/\n",
			base+i, i, i, base+i, base+(i+1)%k, i, i, i, base+i, base+i, i, i)
	}
	for i := 0; i < k; i++ {
		fmt.Fprintf(sb, "URL /rpc%d\n  Protocol json-rpc-2.0\n  Tags @tg%d\n  Method m%d\n    Params\n    {\"p\": @ty%d}\n    Result\n    [@ty%d]\n  Method n%d\n    Params\n    {}\n", base+i, base+i, i, base+i, base+(i+1)%k, i)
	}
	*u += k
}

func c03GenMultiFault(r *xrand.Rand, idx int, tier string) *fw.Case {
	var sb strings.Builder
	sb.WriteString("JSIGHT 0.3\n")
	u := idx * 1000
	var kinds []string
	if r.Chance(3, 4) {
		c03Healthy(&sb, r, r.Range(3, 5), &u)
		kinds = append(kinds, "healthy-multi-entry")
	}
	nk := r.Range(0, 3)
	if len(kinds) == 0 && nk == 0 {
		nk = 1
	}
	for i := 0; i < nk; i++ {
		fk := c03Kinds[r.Intn(len(c03Kinds))]
		fk.gen(&sb, r.Range(2, 6), &u)
		kinds = append(kinds, fk.name)
	}
	c := oneDocCase([]byte(sb.String()), "", "multi-fault document")
	c.Docs[0].FixedSeed = r.Bool()
	c.Meta = map[string]string{"kinds": strings.Join(kinds, "+")}
	return c
}

// c03GenFinalStage: a project that is complete and passes everything up to the final validations of the catalog, where
// two or more faults of different validations wait (optionally after healthy multi-entry content).
func c03GenFinalStage(r *xrand.Rand, idx int, tier string) *fw.Case {
	var sb strings.Builder
	sb.WriteString("JSIGHT 0.3\n")
	u := idx * 1000
	kinds := []string{"faults-of-different-final-validations"}
	if r.Bool() {
		c03Healthy(&sb, r, r.Range(3, 5), &u)
		kinds = append(kinds, "healthy-multi-entry")
	}
	for _, fk := range c03Kinds {
		if fk.name == kinds[0] {
			fk.gen(&sb, r.Range(2, 6), &u)
		}
	}
	c := oneDocCase([]byte(sb.String()), "", "final-stage multi-fault document")
	c.Meta = map[string]string{"kinds": strings.Join(kinds, "+")}
	return c
}

// c03GenAfterFailure: Docs[0] is a healthy project of user types that use each other (declared in a random order, so
// that a type often stands before the types it uses); Docs[1..] are the same project with one fault that only loading or
// checking a type finds, in a type that others use. The healthy project is processed, then a faulty one, then the healthy
// one again: what a rejected project leaves behind in the process must not change the result of the next one.
func c03GenAfterFailure(r *xrand.Rand, idx int, tier string) *fw.Case {
	n := r.Range(3, 7)
	u := idx
	name := func(i int) string { return fmt.Sprintf("@af%d_%d", u, i) }
	type tdef struct {
		head  string
		props []string
	}
	defs := make([]tdef, n)
	for i := 0; i < n; i++ {
		defs[i].head = "TYPE " + name(i)
		var props []string
		for j := i + 1; j < n; j++ {
			if j == i+1 || r.Chance(1, 3) {
				switch r.Intn(4) {
				case 0:
					props = append(props, fmt.Sprintf("\"p%d\": %s", j, name(j)))
				case 1:
					props = append(props, fmt.Sprintf("\"p%d\": [%s]", j, name(j)))
				case 2:
					props = append(props, fmt.Sprintf("\"p%d\": %s | %s", j, name(j), name(n-1)))
				default:
					props = append(props, fmt.Sprintf("\"p%d\": 1 // {or: [\"%s\", \"integer\"]}", j, name(j)))
				}
			}
		}
		if i > 0 && r.Chance(1, 4) {
			props = append(props, fmt.Sprintf("\"back%d\": %s // {optional: true}", i, name(r.Intn(i))))
		}
		props = append(props, fmt.Sprintf("\"own%d\": %d", i, i))
		defs[i].props = props
	}
	order := r.Perm(n)
	if r.Chance(1, 2) {
		for i := range order {
			order[i] = i
		}
	}
	render := func(faultAt int, fault string) []byte {
		var sb strings.Builder
		sb.WriteString("JSIGHT 0.3\n")
		for _, i := range order {
			sb.WriteString(defs[i].head + "\n{\n")
			pp := defs[i].props
			if i == faultAt {
				pp = append(append([]string{}, pp...), fault)
			}
			for k, p := range pp {
				// a comma goes before an end-of-line annotation
				line := p
				if k < len(pp)-1 {
					if at := strings.Index(p, " //"); at >= 0 {
						line = p[:at] + "," + p[at:]
					} else {
						line = p + ","
					}
				}
				sb.WriteString("  " + line + "\n")
			}
			sb.WriteString("}\n")
		}
		fmt.Fprintf(&sb, "GET /af%d\n  200 %s\n", u, name(0))
		return []byte(sb.String())
	}
	c := &fw.Case{Note: "healthy project of types, then the same with a fault in a used type, then the healthy one again"}
	c.Docs = append(c.Docs, run.Single(render(-1, "")))
	faults := []string{"\"bad\": \"s\" // {type: \"integer\"}", "\"bad\": 1 // {min: \"q\"}", "\"bad\": 1 // {precision: 2}", "\"bad\": 1 // {enum: @nosuchenum}", "\"bad\": 1 // {nosuchrule: 1}", "\"bad\": @nosuchtype", "\"bad\": 5 // {max: 2}"}
	for k := r.Range(2, 3); k > 0; k-- {
		c.Docs = append(c.Docs, run.Single(render(r.Range(1, n-1), faults[r.Intn(len(faults))])))
	}
	c.Meta = map[string]string{"kinds": fmt.Sprintf("type-graph n%d after-failed-projects", n)}
	return c
}

func c03EvalAfterFailure(t *fw.T, c *fw.Case) {
	healthy := c.Docs[0]
	first := t.Exec(healthy)
	fp := fingerprint(first)
	t.Count("repetitions")
	if first.Outcome == run.Accepted {
		t.Count("healthy_projects_accepted")
	}
	for _, bad := range c.Docs[1:] {
		ob := t.Exec(bad)
		if ob.Outcome == run.Rejected {
			t.Count("failed_predecessors")
		}
		o := t.Exec(healthy)
		t.Count("repetitions")
		t.Count("history_pairs_compared")
		if f := fingerprint(o); f != fp {
			t.Violation("depends-on-failed-predecessor:"+c03Sig(first, o), fmt.Sprintf("the same project gave another result after a rejected project was processed in the same process:\n  before: %s\n  after:  %s\n  rejected project in between: %s\n%s\n  project %s",
				describe(first), describe(o), describe(ob), fw.Short(bad.Files[bad.Root], 500), fw.Short(healthy.Files[healthy.Root], 500)))
			return
		}
	}
	t.Distinct(c.Meta["kinds"] + " | " + outcomeClass(first))
}

// c03Rejected: projects that are rejected at different places of the library (scanner, contexts, names, the schema
// dependency in a type / a response / a request, the example generator of regular expressions, includes). Every ordered
// pair (i, j): project i, then project j, then project i again - the diagnostic of i is the same both times (what the
// rejection of another project leaves behind must not leak into it).
var c03Rejected = []string{
	"JSIGHT 0.3\nGET /a\n  200 any\n  !bad\n",
	"JSIGHT 0.3\nTYPE @t\n{}\nBody any\n",
	"JSIGHT 0.3\nTYPE @d\n1\nTYPE @d\n2\n",
	"JSIGHT 0.3\nTYPE @t\n{\n  \"id\": 1 // {min: 5}\n}\n",
	"JSIGHT 0.3\nGET /a\n  200\n  {\n    \"id\": 1 // {min: 5}\n  }\n",
	"JSIGHT 0.3\nPOST /a\n  Request\n  {\n    \"s\": \"x\" // {type: \"integer\"}\n  }\n  200 any\n",
	"JSIGHT 0.3\nGET /cats\n  200 regex\n  /[^\\x00-\\x{10FFFF}]/\n",
	"JSIGHT 0.3\nTYPE @r regex\n/[^\\x00-\\x{10FFFF}]/\n",
	"JSIGHT 0.3\nPOST /cats\n  Request regex\n  /a[^\\x00-\\x{10FFFF}]b/\n  200 any\n",
	"JSIGHT 0.3\nGET /a\n  200 @nosuch\n",
	"JSIGHT 0.3\nGET /a\n  Tags @nosuch\n  200 any\n",
	"JSIGHT 0.3\nINCLUDE missing.jst\n",
	"JSIGHT 0.3\nGET /a/{id}\n  Path\n  {\"nosuch\": 1}\n  200 any\n",
	"JSIGHT 0.3\nTYPE @h\n{ // {allOf: \"@nobase\"}\n}\n",
	"JSIGHT 0.3\nENUM @e\n[1, 1]\n",
	"JSIGHT 0.3\nGET /a\n  200\n",
}

func c03EvalRejectedPair(t *fw.T, c *fw.Case) {
	i, j := c.Ints["i"], c.Ints["j"]
	di, dj := run.Single([]byte(c03Rejected[i])), run.Single([]byte(c03Rejected[j]))
	c.Docs = []run.Doc{di, dj}
	first := t.Exec(di)
	other := t.Exec(dj)
	again := t.Exec(di)
	t.Count("repetitions")
	t.Count("rejected_pairs_compared")
	if first.Outcome == run.Rejected {
		t.Count("rejected_pairs_first_rejected")
	}
	if fingerprint(first) != fingerprint(again) {
		t.Violation("depends-on-rejected-predecessor:"+c03Sig(first, again), fmt.Sprintf("the same project gives another result after another rejected project was processed in the same process:\n  before: %s\n  after:  %s\n  in between: %s\n  project %q\n  the other %q",
			describe(first), describe(again), describe(other), c03Rejected[i], c03Rejected[j]))
		return
	}
	t.Distinct(fmt.Sprintf("rejected pair %d", i))
}

// ---- cross-process comparison ----

const c03CrossN = 500

func c03CrossCase(seed uint64, i int) *fw.Case {
	ee := corpus.All()
	if i < len(ee) {
		return c03GenCorpus(nil, i, "quick")
	}
	j := i - len(ee)
	return c03GenMultiFault(xrand.Derive(seed, j, "C03", "multifault"), j, "quick")
}

func c03CrossTotal() int { return len(corpus.All()) + c03CrossN }

// aux: jsmon aux c03fp <seed> <outfile>
func c03AuxFingerprint(args []string) int {
	if len(args) < 2 {
		return 2
	}
	seed, _ := strconv.ParseUint(args[0], 10, 64)
	f, err := os.Create(args[1])
	if err != nil {
		fmt.Fprintln(os.Stderr, err)
		return 2
	}
	defer f.Close()
	w := bufio.NewWriter(f)
	defer w.Flush()
	fw.StartWatchdog()
	// first the rejected projects of c03Rejected, each process in another rotation of the list: what a process has
	// rejected before must not show in the diagnostic of the next project (compared across the processes by the driver)
	rot := 0
	if len(args) > 2 {
		rot, _ = strconv.Atoi(args[2])
	}
	rej := make([]string, len(c03Rejected))
	for k := range c03Rejected {
		i := (k + rot*5) % len(c03Rejected)
		fw.TouchWatchdog()
		rej[i] = fingerprint(run.Exec(run.Single([]byte(c03Rejected[i])), false))
	}
	for i, f := range rej {
		fmt.Fprintf(w, "R%d %s\n", i, f)
	}
	for i := 0; i < c03CrossTotal(); i++ {
		c := c03CrossCase(seed, i)
		fmt.Fprintf(os.Stderr, "case %d\n", i)
		fw.TouchWatchdog()
		o := run.Exec(c.Docs[0], false)
		fmt.Fprintf(w, "%d %s\n", i, fingerprint(o))
	}
	return 0
}

// aux c03rel <root file name>: processes the project in the current directory under the relative name it is given and
// prints everything a caller can see of the result.
func c03AuxRelative(args []string) int {
	if len(args) < 1 {
		return 2
	}
	j, err := kit.NewJapi(args[0])
	if err != nil {
		fmt.Printf("new-error %s\n", err)
		return 0
	}
	if je := j.ValidateJAPI(); je != nil {
		fmt.Printf("rejected index=%d line=%d quote=%q\n%s\n", je.Index(), je.Line(), je.Quote(), je.Error())
		return 0
	}
	b, _ := j.ToJson()
	fmt.Printf("accepted\n%s\n", b)
	return 0
}

// c03Relocated: one project (relative names, same bytes, same options) in two directories, each processed by a fresh
// process that stands in it: where the project lies on the disk is not part of the input.
func c03Relocated(d *fw.Driver) {
	projects := []map[string]string{
		{"main.jst": "JSIGHT 0.3\n\nINCLUDE types/cat.jst\nGET /cats\n  200 @cat\n", "types/cat.jst": "TYPE @cat\n{\n  \"id\": @nosuch\n}\n"},
		{"main.jst": "JSIGHT 0.3\nINCLUDE a.jst\n", "a.jst": "INCLUDE sub/b.jst\n", "sub/b.jst": "GET /x\n  Tags @undeclared\n  200 any\n"},
		{"main.jst": "JSIGHT 0.3\nINCLUDE a.jst\nGET /ok\n  200 @t\n", "a.jst": "TYPE @t\n{\"a\": 1}\n"},
		{"main.jst": "JSIGHT 0.3\nINCLUDE missing.jst\n"},
		{"main.jst": "JSIGHT 0.3\nGET /a\n  200 any\n  !bad\n"},
	}
	for pi, files := range projects {
		var outs []string
		for _, where := range []string{"reloc/one", "reloc/elsewhere/deeper/two"} {
			dir := filepath.Join(d.WorkDir, fmt.Sprintf("p%d", pi), where)
			for name, content := range files {
				full := filepath.Join(dir, name)
				_ = os.MkdirAll(filepath.Dir(full), 0o755)
				_ = os.WriteFile(full, []byte(content), 0o644)
			}
			cmd := exec.Command(d.Self, "aux", "c03rel", "main.jst")
			cmd.Dir = dir
			b, err := cmd.CombinedOutput()
			if err != nil {
				d.AddInconclusive(fmt.Sprintf("relocated project %d: %v %s", pi, err, fw.Short(b, 200)))
				return
			}
			outs = append(outs, string(b))
		}
		d.Count("relocated_projects_compared", 1)
		if outs[0] != outs[1] {
			d.AddViolation("depends-on-directory", fmt.Sprintf("the same project (relative names) gives another result when it lies in another directory:\n--- in reloc/one\n%s\n--- in reloc/elsewhere/deeper/two\n%s", fw.Short([]byte(outs[0]), 600), fw.Short([]byte(outs[1]), 600)), nil)
			return
		}
	}
}

func c03Post(d *fw.Driver) {
	c03Relocated(d)
	nproc := 3
	if d.Tier == "thorough" {
		nproc = 8
	}
	var outs [][]string
	for p := 0; p < nproc; p++ {
		out := filepath.Join(d.WorkDir, fmt.Sprintf("fp%d.txt", p))
		cmd := exec.Command(d.Self, "aux", "c03fp", strconv.FormatUint(d.Seed, 10), out, strconv.Itoa(p))
		cmd.Env = append(os.Environ(), fmt.Sprintf("GOMAXPROCS=%d", []int{1, 4, 16, 2, 8, 3, 16, 1}[p%8]))
		if b, err := cmd.CombinedOutput(); err != nil {
			if ee, ok := err.(*exec.ExitError); ok && ee.ExitCode() == fw.ExitHang {
				// the watchdog of the fresh process fired: an execution blocked or ran away after the ones before it
				last := -1
				for _, l := range strings.Split(string(b), "\n") {
					if strings.HasPrefix(l, "case ") {
						fmt.Sscan(strings.TrimPrefix(l, "case "), &last)
					}
				}
				var c *fw.Case
				if last >= 0 {
					c = c03CrossCase(d.Seed, last)
					c.Check, c.Family = "C03", "multifault"
				}
				d.AddViolation("fresh-process-hangs", fmt.Sprintf("a fresh process that runs the fixed list of projects one after another hangs at project %d (each of them ends when run alone): %s", last, fw.Short(b, 600)), c)
				return
			}
			d.AddInconclusive(fmt.Sprintf("fingerprint process %d failed: %v %s", p, err, fw.Short(b, 300)))
			return
		}
		b, _ := os.ReadFile(out)
		outs = append(outs, strings.Split(strings.TrimSpace(string(b)), "\n"))
	}
	d.Count("fresh_processes", int64(nproc))
	for i := 0; i < len(outs[0]); i++ {
		d.Count("driver_evaluations", 1)
		d.Count("cross_process_cases", 1)
		if strings.HasPrefix(outs[0][i], "R") {
			// a rejected project of the rotated list: the processes met it after different predecessors
			for p := 1; p < nproc; p++ {
				if i >= len(outs[p]) || outs[p][i] != outs[0][i] {
					k := 0
					fmt.Sscanf(outs[0][i], "R%d", &k)
					c := &fw.Case{Check: "C03", Family: "rejected-after-rejected", Index: k * len(c03Rejected), Docs: []run.Doc{run.Single([]byte(c03Rejected[k%len(c03Rejected)]))}}
					d.AddViolation("depends-on-rejected-predecessor:cross-process", fmt.Sprintf("fresh processes that reject the same projects in different orders disagree on one of them (process 0: %s, process %d: %s); project %q",
						outs[0][i], p, safeIdx(outs[p], i), c03Rejected[k%len(c03Rejected)]), c)
					break
				}
			}
			continue
		}
		ci := i
		fmt.Sscanf(outs[0][i], "%d", &ci) // the line carries the index of its case
		for p := 1; p < nproc; p++ {
			if i >= len(outs[p]) || outs[p][i] != outs[0][i] {
				c := c03CrossCase(d.Seed, ci)
				c.Check, c.Family = "C03", "multifault"
				if ci < len(corpus.All()) {
					c.Family = "corpus"
				}
				a := run.Exec(c.Docs[0], false)
				sig := "cross-process:" + outcomeClass(a)
				for k := 0; k < 40; k++ { // the same defect usually shows within one process too: name it the same way
					if b := run.Exec(c.Docs[0], false); fingerprint(b) != fingerprint(a) {
						sig = c03Sig(a, b)
						break
					}
				}
				d.AddViolation(sig, fmt.Sprintf("fresh processes disagree on case %d (process 0: %s, process %d: %s); one result: %s; input %s",
					ci, outs[0][i], p, safeIdx(outs[p], i), describe(a), fw.Short(c.Docs[0].Files[c.Docs[0].Root], 400)), c)
				break
			}
		}
	}
}

func safeIdx(ss []string, i int) string {
	if i < len(ss) {
		return ss[i]
	}
	return "<missing>"
}


// c03EvalHistory: the result of a project must not depend on what the process has handled before under the same file
// name: the project is processed under a name that has just been used for other texts (the same text with CR or CRLF
// line ends, a truncated copy, another project) and under a name nobody has used; both results must be the same.
func c03EvalHistory(t *fw.T, c *fw.Case) {
	d := c.Docs[0]
	text := d.Files[d.Root]
	used := fmt.Sprintf("used%d_%d.jst", t.Seed%1000, c.Index)
	fresh := fmt.Sprintf("fresh%d_%d.jst", t.Seed%1000, c.Index)
	mk := func(name string, b []byte) run.Doc {
		nd := run.Doc{Files: map[string][]byte{name: b}, Root: name, FixedSeed: true}
		return nd
	}
	polluters := [][]byte{
		[]byte(strings.ReplaceAll(string(text), "\n", "\r")),
		[]byte(strings.ReplaceAll(string(text), "\n", "\r\n")),
		text[:len(text)/2],
		[]byte("JSIGHT 0.3\rGET /x\r  Tags @nosuch\r  200 any\r"),
	}
	for _, pb := range polluters {
		t.Exec(mk(used, pb))
	}
	oa := t.Exec(mk(used, text))
	ob := t.Exec(mk(fresh, text))
	t.Count("repetitions")
	t.Count("history_pairs_compared")
	norm := func(o *run.Obs, name string) string {
		return strings.ReplaceAll(fingerprintText(o), name, "<name>")
	}
	if a, b := norm(oa, used), norm(ob, fresh); a != b {
		c.Docs = []run.Doc{mk(used, text)}
		t.Violation("depends-on-history:"+c03Sig(ob, oa), fmt.Sprintf("the same project gives another result under a file name that was used before for other texts:\n  fresh name: %s\n  used name:  %s\n  input %s", describe(ob), describe(oa), fw.Short(text, 400)))
	}
}

func fingerprintText(o *run.Obs) string {
	return fmt.Sprintf("%s|%s|%d|%d|%s|%s|%s|%s|%s", o.Outcome, o.ErrText, o.Index, o.Line, o.Quote, o.NewErr, o.PanicVal, o.JSON, o.JSONIndent)
}
