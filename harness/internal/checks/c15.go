package checks

import (
	"fmt"
	"strings"

	"github.com/jsightapi/jsight-api-go-library/core"
	"github.com/jsightapi/jsight-api-go-library/directive"

	"verifharness/internal/fw"
	"verifharness/internal/jsonx"
	"verifharness/internal/run"
	"verifharness/internal/xrand"
)

var c15Symbols = []string{"a", " ", "\t", "\r", "\n", "(", ")", "#", "GET", "200"}

var c15Hosts = []string{"info", "http", "rpc", "tag"}

func init() {
	fw.Register(&fw.Check{
		ID:    "C15",
		Level: "exploration",
		Rule: "texts over the symbols {a, space, tab, CR, LF, '(', ')', '#', GET, 200}: every text up to the bound goes through the real normaliser (hook) and the relations of the statement are asserted on (source, result): " +
			"no CR, no surrounding blank line, the non-blank lines are the source's in order, one common whitespace prefix removed and some line unindented, idempotence, blank text rejected; " +
			"texts whose bare spelling the language does not cut (no line starting with a keyword, response code or parenthesis) also go end-to-end through INFO, an HTTP method, a JSON-RPC method and a TAG in the bare and the parenthesised spelling: " +
			"same verdict, same catalog text, equal to the hook's result. Annotations: texts over {a, b, space, tab, '/', '*', '\"'} in the // and /* */ spellings on TYPE, method, response, SERVER, TAG: catalog text = whitespace-collapsed source, both spellings equal. " +
			"distinct_nontrivial = distinct (host, spelling, text shape) with a non-blank result",
		Assumptions: []string{
			"a blank line is an empty or whitespace-only line",
			"mixed tab/space indentation is not over-specified: only 'a whitespace prefix of equal length was removed from every non-blank line and one non-blank line starts at column 0' is asserted",
		},
		Exhaustive: true,
		Families: []fw.Family{
			{Name: "direct", Stream: c15StreamDirect, Eval: c15EvalDirect},
			{Name: "endtoend", Stream: c15StreamE2E, Eval: c15EvalE2E},
			{Name: "random", N: constN(6000, 150000), Gen: c15GenRandom, Eval: c15EvalE2E},
			{Name: "annotation", Stream: c15StreamAnnotation, Eval: c15EvalAnnotation},
			{Name: "what-follows", N: func(string) int { return c15FollowCount() }, Gen: c15GenFollow, Eval: c15EvalFollow},
			{Name: "same-place-other-file", N: constN(600, 20000), Gen: func(r *xrand.Rand, idx int, tier string) *fw.Case {
				return &fw.Case{Docs: []run.Doc{{}}}
			}, Eval: c15EvalFiles},
		},
		Floors: map[string]int64{"direct_checked": 20000, "e2e_pairs_checked": 3000, "annotations_checked": 2000},
	})
}

func isBlankLine(s string) bool { return strings.Trim(s, " \t") == "" }

func normNL(s string) string {
	s = strings.ReplaceAll(s, "\r\n", "\n")
	return strings.ReplaceAll(s, "\r", "\n")
}

// coreLines returns the source lines without the surrounding blank lines.
func coreLines(src string) []string {
	lines := strings.Split(normNL(src), "\n")
	for len(lines) > 0 && isBlankLine(lines[0]) {
		lines = lines[1:]
	}
	for len(lines) > 0 && isBlankLine(lines[len(lines)-1]) {
		lines = lines[:len(lines)-1]
	}
	return lines
}

// c15Relations asserts the statement's relations between a source text (no parentheses) and a result.
func c15Relations(src, res string) (sig, msg string) {
	if strings.Contains(res, "\r") {
		return "cr-in-result", "the description contains a CR"
	}
	M := coreLines(src)
	R := strings.Split(res, "\n")
	if len(M) == 0 {
		return "", "" // blank: decided by the caller (must be rejected)
	}
	if isBlankLine(R[0]) {
		return "leading-blank-line", "the description starts with a blank line"
	}
	if isBlankLine(R[len(R)-1]) {
		return "trailing-blank-line", "the description ends with a blank line"
	}
	if len(R) != len(M) {
		return "line-count", fmt.Sprintf("%d lines expected (source without surrounding blank lines), got %d", len(M), len(R))
	}
	removed := -1
	lcp := ""
	first := true
	for i := range M {
		m, r := M[i], R[i]
		if isBlankLine(m) {
			if !isBlankLine(r) {
				return "blank-line-content", fmt.Sprintf("line %d is blank in the source but %q in the result", i, r)
			}
			continue
		}
		mt := strings.TrimRight(m, " \t")
		rt := strings.TrimRight(r, " \t")
		if !strings.HasSuffix(mt, rt) {
			return "line-content", fmt.Sprintf("line %d: result %q is not the source line %q minus an indentation", i, r, m)
		}
		cut := mt[:len(mt)-len(rt)]
		if strings.Trim(cut, " \t") != "" {
			return "line-content", fmt.Sprintf("line %d: %q was removed from %q, which is not indentation", i, cut, m)
		}
		if removed == -1 {
			removed = len(cut)
		} else if removed != len(cut) {
			return "uneven-indent-removal", fmt.Sprintf("line %d lost %d bytes of indentation, earlier lines lost %d", i, len(cut), removed)
		}
		ind := rt[:len(rt)-len(strings.TrimLeft(rt, " \t"))]
		if first {
			lcp = ind
			first = false
		} else {
			for !strings.HasPrefix(ind, lcp) {
				lcp = lcp[:len(lcp)-1]
			}
		}
	}
	if lcp != "" {
		return "common-indent-not-removed", fmt.Sprintf("every non-blank line of the result still starts with %q: the common indentation was not removed", lcp)
	}
	return "", ""
}

func c15Norm(src string) (string, error) {
	b, err := core.VerifDescription([]byte(src))
	return string(b), err
}

func textShape(s string) string {
	var sb strings.Builder
	for _, c := range []byte(s) {
		switch c {
		case ' ':
			sb.WriteByte('_')
		case '\t':
			sb.WriteByte('T')
		case '\r':
			sb.WriteByte('R')
		case '\n':
			sb.WriteByte('N')
		default:
			if c >= 'a' && c <= 'z' {
				sb.WriteByte('a')
			} else {
				sb.WriteByte(c)
			}
		}
	}
	s2 := sb.String()
	if len(s2) > 24 {
		s2 = s2[:24]
	}
	return s2
}

func c15StreamDirect(t *fw.T, shard, nshards int, emit func(*fw.Case)) {
	maxLen := t.Pick(6, 8)
	n := 0
	enumerate(c15Symbols, maxLen, func(s string) {
		n++
		if n%nshards != shard {
			emit(nil)
			return
		}
		emit(&fw.Case{Meta: map[string]string{"text": s}, Docs: []run.Doc{{}}})
	})
}

func c15EvalDirect(t *fw.T, c *fw.Case) {
	src := c.Meta["text"]
	c15Direct(t, src)
}

// c15Direct checks the hook-level relations for a text without parentheses handling
// (a text that is one parenthesised block is unwrapped by the normaliser: that form is checked end to end).
func c15Direct(t *fw.T, src string) (string, bool) {
	t.Count("direct_checked")
	res, err := c15Norm(src)
	trim := strings.TrimSpace(src)
	if len(trim) >= 2 && trim[0] == '(' && trim[len(trim)-1] == ')' {
		t.Count("direct_parenthesised_form_skipped")
		return res, err == nil
	}
	if err != nil {
		t.Violation("normaliser-error", fmt.Sprintf("the normaliser rejects the plain text %q: %v", src, err))
		return "", false
	}
	if len(coreLines(src)) == 0 {
		if res != "" {
			t.Violation("blank-not-empty", fmt.Sprintf("blank text %q normalises to %q, not to the empty text", src, res))
		}
		return res, true
	}
	if sig, msg := c15Relations(src, res); sig != "" {
		t.Violation("relation:"+sig, fmt.Sprintf("%s; source %q result %q", msg, src, res))
		return res, true
	}
	// idempotence
	res2, err2 := c15Norm(res)
	t2 := strings.TrimSpace(res)
	if !(len(t2) >= 2 && t2[0] == '(' && t2[len(t2)-1] == ')') {
		if err2 != nil || res2 != res {
			t.Violation("not-idempotent", fmt.Sprintf("normalising twice changes the text: %q -> %q -> %q (%v)", src, res, res2, err2))
		}
	}
	t.Distinct("direct " + textShape(src))
	return res, true
}

// lineStartsCut reports whether the language would end a bare description at this line.
func lineStartsCut(line string) bool {
	l := strings.TrimLeft(line, " \t")
	if l == "" {
		return false
	}
	if l[0] == ')' || l[0] == '(' {
		return true
	}
	return directive.IsStartWithDirective([]byte(l))
}

// e2eEligible: the text's bare and parenthesised spellings both carry exactly this text.
func e2eEligible(src string) bool {
	if strings.ContainsRune(src, 0) {
		return false
	}
	for _, l := range strings.Split(normNL(src), "\n") {
		if lineStartsCut(l) {
			return false
		}
	}
	return true
}

// followers: directives that may come right after a description in each host (index 0: nothing follows).
var c15Followers = map[string][]string{
	"info": {"", "  Version 2\n"},
	"http": {"", "  Tags @ft\n", "  Query\n  {}\n", "  Request any\n", "  200 any\n", "  404 any // n\n"},
	"rpc":  {"", "    Tags @ft\n", "    Params\n    {}\n", "    Result\n    {}\n"},
	"tag":  {""},
}

func c15HostDocF(host, body string, follower int) string {
	f := c15Followers[host][follower%len(c15Followers[host])]
	tail := ""
	if strings.Contains(f, "@ft") {
		tail = "TAG @ft\n"
	}
	if body != "" && !strings.HasSuffix(body, "\n") && !strings.HasSuffix(body, "\r") {
		body += "\n"
	}
	switch host {
	case "info":
		return "JSIGHT 0.3\nINFO\n  Title \"t\"\n  Description\n" + body + f + tail
	case "http":
		return "JSIGHT 0.3\nGET /a\n  Description\n" + body + f + tail
	case "rpc":
		return "JSIGHT 0.3\nURL /r\n  Protocol json-rpc-2.0\n  Method m\n    Description\n" + body + f + tail
	default:
		return "JSIGHT 0.3\nTAG @t_a\n  Description\n" + body + f + tail + "TAG @t__a\n"
	}
}

func c15HostDoc(host, body string) string { return c15HostDocF(host, body, 0) }

func c15HostField(host string, root *jsonx.Node) (string, bool) {
	switch host {
	case "info":
		n := root.Get("info").Get("description")
		return n.S(), n != nil
	case "http", "rpc":
		in := root.Get("interactions")
		if in == nil || len(in.Vals) != 1 {
			return "", false
		}
		n := in.Vals[0].Get("description")
		return n.S(), n != nil
	default:
		n := root.Get("tags").Get("@t_a").Get("description")
		return n.S(), n != nil
	}
}

func c15StreamE2E(t *fw.T, shard, nshards int, emit func(*fw.Case)) {
	maxLen := t.Pick(5, 6)
	n := 0
	enumerate(c15Symbols, maxLen, func(s string) {
		n++
		if n%nshards != shard {
			emit(nil)
			return
		}
		if !e2eEligible(s) {
			emit(nil)
			return
		}
		emit(&fw.Case{Meta: map[string]string{"text": s, "host": c15Hosts[n%4]}, Docs: []run.Doc{{}}})
	})
}

func c15GenRandom(r *xrand.Rand, idx int, tier string) *fw.Case {
	nl := r.Range(2, 9)
	var sb strings.Builder
	indentUnit := []string{" ", "  ", "\t", "    "}[r.Intn(4)]
	base := r.Intn(4)
	eol := []string{"\n", "\r\n", "\r"}[r.Intn(3)]
	for i := 0; i < nl; i++ {
		switch r.Intn(8) {
		case 0:
			// empty line
		case 1:
			sb.WriteString(strings.Repeat(" ", r.Intn(7))) // whitespace-only line
		case 2:
			sb.WriteString(strings.Repeat("\t", r.Intn(3)))
		default:
			sb.WriteString(strings.Repeat(indentUnit, base+r.Intn(3)))
			words := r.Range(1, 4)
			for w := 0; w < words; w++ {
				sb.WriteString([]string{"text", "a(b)", "x #y", "see GET", "200ok", "-", "ж"}[r.Intn(7)])
				sb.WriteString([]string{" ", "  ", "\t", ""}[r.Intn(4)])
			}
		}
		if i < nl-1 || r.Bool() {
			sb.WriteString(eol)
		}
	}
	s := sb.String()
	if !e2eEligible(s) {
		s = "  plain" + eol + "   text"
	}
	return &fw.Case{Meta: map[string]string{"text": s, "host": c15Hosts[idx%4]}, Docs: []run.Doc{{}}}
}

func c15EvalE2E(t *fw.T, c *fw.Case) {
	src, host := c.Meta["text"], c.Meta["host"]
	if !e2eEligible(src) {
		return
	}
	hookRes, hookOK := c15Direct(t, src)
	fol := int(xrand.HashStr(src+host) % 6)
	bare := c15HostDocF(host, src, fol)
	paren := c15HostDocF(host, "(\n"+src+"\n)\n", fol)
	if c15Followers[host][fol%len(c15Followers[host])] != "" {
		t.Count("e2e_with_follower")
	}
	c.Docs = []run.Doc{run.Single([]byte(bare)), run.Single([]byte(paren))}
	ob := t.Exec(c.Docs[0])
	op := t.Exec(c.Docs[1])
	t.Count("e2e_pairs_checked")
	blank := len(coreLines(src)) == 0
	if blank {
		if ob.Outcome == run.Accepted || op.Outcome == run.Accepted {
			t.Violation("blank-accepted:"+host, fmt.Sprintf("a blank description %q is accepted (bare: %s | parenthesised: %s)", src, describe(ob), describe(op)))
		}
		t.Count("blank_descriptions_checked")
		return
	}
	if ob.Outcome != op.Outcome {
		t.Violation("spelling-verdict:"+host, fmt.Sprintf("text %q: bare %s | parenthesised %s", src, describe(ob), describe(op)))
		return
	}
	if ob.Outcome != run.Accepted {
		t.Violation("nonblank-rejected:"+host+":"+run.MsgTemplate(ob.Msg), fmt.Sprintf("a non-blank description %q is rejected: %s", src, describe(ob)))
		return
	}
	db, err1 := jsonx.Parse(ob.JSON)
	dp, err2 := jsonx.Parse(op.JSON)
	if err1 != nil || err2 != nil {
		return
	}
	fb, okb := c15HostField(host, db.Root)
	fp, okp := c15HostField(host, dp.Root)
	if !okb || !okp {
		t.Violation("description-missing:"+host, fmt.Sprintf("text %q: description field missing (bare %v, parenthesised %v)", src, okb, okp))
		return
	}
	if fb != fp {
		t.Violation("spelling-text:"+host, fmt.Sprintf("text %q gives %q bare and %q in parentheses", src, fb, fp))
		return
	}
	if string(ob.JSON) != string(op.JSON) {
		t.Violation("spelling-catalog:"+host, fmt.Sprintf("text %q: the catalogs of the bare and the parenthesised spelling differ: %s", src, jsonx.Diff(db.Root, dp.Root, "$")))
		return
	}
	// the same bare text as the very last bytes of the file (no line end after it)
	if host != "tag" && !strings.HasSuffix(src, "\n") && !strings.HasSuffix(src, "\r") {
		eofDoc := strings.TrimSuffix(c15HostDocF(host, src, 0), "\n")
		oe := t.Exec(run.Single([]byte(eofDoc)))
		t.Count("e2e_at_end_of_file_checked")
		fe := ""
		if oe.Outcome == run.Accepted {
			if de, err := jsonx.Parse(oe.JSON); err == nil {
				fe, _ = c15HostField(host, de.Root)
			}
		}
		if oe.Outcome != run.Accepted || fe != fb {
			c.Docs = []run.Doc{run.Single([]byte(eofDoc)), c.Docs[1]}
			t.Violation("spelling-text-at-end-of-file:"+host, fmt.Sprintf("text %q as the last bytes of the file: %s (description %q); in parentheses %q", src, describe(oe), fe, fp))
			return
		}
	}
	// the closing parenthesis of the text and the closing parenthesis of the directive around it on one line
	if host == "http" && !strings.ContainsAny(src, "\r") {
		mk := func(closing string) run.Doc {
			return run.Single([]byte("JSIGHT 0.3\nGET /a\n(\n  Description\n  (\n" + strings.TrimRight(src, "\n") + "\n  " + closing + "\nGET /b\n  200 any\n"))
		}
		oa := t.Exec(mk(")\n)"))
		for _, closing := range []string{"))", ") )", ")\t) # c"} {
			d := mk(closing)
			o := t.Exec(d)
			t.Count("closings_on_one_line_checked")
			if o.Outcome != oa.Outcome || string(o.JSON) != string(oa.JSON) {
				c.Docs = []run.Doc{mk(")\n)"), d}
				t.Violation("closings-on-one-line", fmt.Sprintf("text %q: the closing parentheses of the text and of the method on one line (%q) change the result: separate lines %s | one line %s", src, closing, describe(oa), describe(o)))
				return
			}
		}
	}
	if hookOK && fb != hookRes {
		t.Violation("catalog-vs-normaliser:"+host, fmt.Sprintf("text %q: catalog has %q, the normaliser alone gives %q", src, fb, hookRes))
		return
	}
	if sig, msg := c15Relations(src, fb); sig != "" {
		t.Violation("relation:"+sig, fmt.Sprintf("%s; source %q catalog %q (host %s)", msg, src, fb, host))
		return
	}
	t.Distinct(host + " " + textShape(src))
	t.Sample("e2e/"+host, map[string]interface{}{"text": src, "catalog": fb})
}

// ---- annotations ----

var c15AnnSymbols = []string{"a", "b", " ", "\t", "/", "*", "\"", "é", "\u00a0", "\u3000"}

var c15AnnHosts = []string{"type", "method", "response", "server", "tag", "enum"}

func c15StreamAnnotation(t *fw.T, shard, nshards int, emit func(*fw.Case)) {
	maxLen := t.Pick(4, 6)
	n := 0
	// the empty annotation in every host: the opening is directly followed by the line end
	for _, h := range c15AnnHosts {
		n++
		if n%nshards != shard {
			emit(nil)
			continue
		}
		emit(&fw.Case{Meta: map[string]string{"text": "", "host": h}, Docs: []run.Doc{{}}})
	}
	enumerate(c15AnnSymbols, maxLen, func(s string) {
		n++
		if n%nshards != shard {
			emit(nil)
			return
		}
		emit(&fw.Case{Meta: map[string]string{"text": s, "host": c15AnnHosts[n%len(c15AnnHosts)]}, Docs: []run.Doc{{}}})
	})
	// multi-line texts, which only the /* */ spelling can hold: every kind of line end is whitespace to be collapsed;
	// the // twin carries the collapsed text
	enumerate(c15AnnBlockSymbols, t.Pick(5, 6), func(s string) {
		n++
		if n%nshards != shard {
			emit(nil)
			return
		}
		if !strings.ContainsAny(s, "\n\r") {
			emit(nil)
			return
		}
		emit(&fw.Case{Meta: map[string]string{"text": s, "host": c15AnnHosts[n%len(c15AnnHosts)], "mode": "block"}, Docs: []run.Doc{{}}})
	})
}

var c15AnnBlockSymbols = []string{"a", "b", " ", "\t", "\n", "\r", "\r\n"}

func c15AnnDoc(host, ann string) string {
	switch host {
	case "type":
		return "JSIGHT 0.3\nTYPE @t " + ann + "\n{}\n"
	case "method":
		return "JSIGHT 0.3\nGET /a " + ann + "\n  200 any\n"
	case "response":
		return "JSIGHT 0.3\nGET /a\n  200 any " + ann + "\n"
	case "server":
		return "JSIGHT 0.3\nSERVER @s " + ann + "\n  BaseUrl \"https://a/\"\n"
	case "enum":
		return "JSIGHT 0.3\nENUM @e " + ann + "\n[1]\n"
	default:
		return "JSIGHT 0.3\nTAG @t_a " + ann + "\nTAG @t__a\n"
	}
}

func c15AnnField(host string, root *jsonx.Node) (string, bool) {
	switch host {
	case "type":
		n := root.Get("userTypes").Get("@t").Get("annotation")
		return n.S(), n != nil
	case "method":
		in := root.Get("interactions")
		if in == nil || len(in.Vals) != 1 {
			return "", false
		}
		n := in.Vals[0].Get("annotation")
		return n.S(), n != nil
	case "response":
		in := root.Get("interactions")
		if in == nil || len(in.Vals) != 1 {
			return "", false
		}
		rs := in.Vals[0].Get("responses").Arr0()
		if len(rs) != 1 {
			return "", false
		}
		n := rs[0].Get("annotation")
		return n.S(), n != nil
	case "server":
		n := root.Get("servers").Get("@s").Get("annotation")
		return n.S(), n != nil
	case "enum":
		n := root.Get("userEnums").Get("@e").Get("annotation")
		return n.S(), n != nil
	default:
		n := root.Get("tags").Get("@t_a").Get("title")
		return n.S(), n != nil
	}
}

// collapseWS collapses every kind of blank (the statement does not say whether a no-break space is whitespace:
// both sides of the comparison are normalised, so either reading is accepted here; C04 pins the content).
func collapseWS(s string) string { return strings.Join(strings.Fields(s), " ") }

func c15EvalAnnotation(t *fw.T, c *fw.Case) {
	src, host := c.Meta["text"], c.Meta["host"]
	// the text must not end the /* */ form early, start a comment, or be blank
	blockMode := c.Meta["mode"] == "block"
	if strings.Contains(src, "*/") || strings.ContainsAny(src, "#") || !blockMode && strings.ContainsAny(src, "\n\r") {
		return
	}
	want := collapseWS(src)
	if want == "" {
		// a blank annotation (nothing, or only blanks, after the opening) is no annotation: the same catalog as without it,
		// in both spellings, glued to the opening or not - and what follows on the next line is still read
		if blockMode {
			return
		}
		t.Count("blank_annotations_checked")
		none := run.Single([]byte(c15AnnDoc(host, "")))
		on := t.Exec(none)
		for _, sp := range []string{"//" + src, "/*" + src + "*/", "// " + src, "/* " + src + " */"} {
			d := run.Single([]byte(c15AnnDoc(host, sp)))
			o := t.Exec(d)
			if o.Outcome != on.Outcome || string(o.JSON) != string(on.JSON) {
				c.Docs = []run.Doc{none, d}
				t.Violation("blank-annotation-changes-result:"+host, fmt.Sprintf("a blank annotation %q changes the result: without %s | with %s\n%s", sp, describe(on), describe(o), c15AnnDoc(host, sp)))
				return
			}
		}
		t.Distinct("ann blank " + host)
		return
	}
	t.Count("annotations_checked")
	line := c15AnnDoc(host, "// "+src)
	if blockMode {
		t.Count("multiline_annotations_checked")
		line = c15AnnDoc(host, "// "+want)
	}
	block := c15AnnDoc(host, "/* "+src+" */")
	c.Docs = []run.Doc{run.Single([]byte(line)), run.Single([]byte(block))}
	ol := t.Exec(c.Docs[0])
	obk := t.Exec(c.Docs[1])
	if ol.Outcome != run.Accepted || obk.Outcome != run.Accepted {
		t.Violation("annotation-rejected:"+host, fmt.Sprintf("annotation %q: // form %s | /* */ form %s", src, describe(ol), describe(obk)))
		return
	}
	dl, e1 := jsonx.Parse(ol.JSON)
	db, e2 := jsonx.Parse(obk.JSON)
	if e1 != nil || e2 != nil {
		return
	}
	fl, _ := c15AnnField(host, dl.Root)
	fb, _ := c15AnnField(host, db.Root)
	if fl != fb {
		t.Violation("annotation-spellings:"+host, fmt.Sprintf("annotation %q reads %q as // and %q as /* */", src, fl, fb))
		return
	}
	// user-type annotations are stored raw in the catalog struct; the statement speaks of collapsed whitespace
	if collapseWS(fl) != want {
		t.Violation("annotation-text:"+host, fmt.Sprintf("annotation %q reads %q, expected %q", src, fl, want))
		return
	}
	if strings.Contains(fl, "  ") || strings.ContainsAny(fl, "\t\n\r") || strings.HasPrefix(fl, " ") || strings.HasSuffix(fl, " ") {
		t.Violation("annotation-not-collapsed:"+host, fmt.Sprintf("annotation %q reads %q: whitespace runs are not collapsed (expected %q)", src, fl, want))
		return
	}
	t.Distinct("ann " + host + " " + textShape(src))
	t.Sample("annotation/"+host, map[string]interface{}{"text": src, "catalog": fl})
}

// ---- what may follow a bare description: every directive kind, every response-code class, every line-end style ----

type c15Follow struct {
	paren bool              // the host has an explicit '(' context and text starts with the ')' that closes it
	text  string            // follows the description (already indented for its place)
	tail  string            // declarations it needs, appended at the end
	file  map[string]string // files an INCLUDE needs
}

var c15Codes = []string{"100", "101", "199", "200", "201", "204", "299", "300", "301", "399", "400", "404", "418", "499", "500", "501", "503", "599"}

var c15TopFollowers = []c15Follow{
	{text: "GET /zb\n  200 any\n"}, {text: "POST /zb\n  200 any\n"}, {text: "PUT /zb\n  200 any\n"}, {text: "PATCH /zb\n  200 any\n"}, {text: "DELETE /zb\n  200 any\n"},
	{text: "URL /zc\n  GET\n    200 any\n"}, {text: "TYPE @zx any\n"}, {text: "TYPE @zx\n{}\n"}, {text: "ENUM @ze\n[1]\n"}, {text: "SERVER @zs\n  BaseUrl \"https://a/\"\n"},
	{text: "TAG @zt\n"}, {text: "MACRO @zm\n(\n  TYPE @zy any\n)\n"}, {text: "PASTE @zm2\n", tail: "MACRO @zm2\n(\n  TYPE @zy2 any\n)\n"},
	{text: "INCLUDE inc.jst\n", file: map[string]string{"inc.jst": "TYPE @zinc any\n"}}, {text: "INCLUDE \"inc.jst\"\n", file: map[string]string{"inc.jst": "TYPE @zinc any\n"}},
	{text: "\nTYPE @zx any\n"}, {text: "\n\n  \nTYPE @zx any\n"},
}

func c15FollowersOf(host string) []c15Follow {
	var out []c15Follow
	switch host {
	case "http":
		out = append(out, c15Follow{text: "  Tags @ft\n", tail: "TAG @ft\n"}, c15Follow{text: "  Query\n  {}\n"}, c15Follow{text: "  Query noFormat\n  {}\n"},
			c15Follow{text: "  Path\n  {\"id\": 1}\n"}, c15Follow{text: "  Request any\n"}, c15Follow{text: "  Request\n  {}\n"}, c15Follow{text: "  Request regex\n  /a/\n"},
			c15Follow{text: "  INCLUDE inc.jst\n", file: map[string]string{"inc.jst": "  200 any\n"}}, c15Follow{text: "  PASTE @zr\n", tail: "MACRO @zr\n(\n  200 any\n)\n"})
		for _, code := range c15Codes {
			out = append(out, c15Follow{text: "  " + code + " any\n"}, c15Follow{text: "  " + code + "\n  {}\n"}, c15Follow{text: "  " + code + " // note\n  {}\n"}, c15Follow{text: "  " + code + "\n    Body any\n"})
		}
	case "info":
		out = append(out, c15Follow{text: "  Version 2\n"}, c15Follow{text: "  Version \"2\"\n"})
	case "rpc":
		out = append(out, c15Follow{text: "    Tags @ft\n", tail: "TAG @ft\n"}, c15Follow{text: "    Params\n    {}\n"}, c15Follow{text: "    Result\n    {}\n"}, c15Follow{text: "    Params\n    {}\n    Result\n    {}\n"},
			c15Follow{text: "  Method m2\n    Params\n    {}\n"})
	case "tag":
		out = append(out, c15Follow{text: "  TAG @sub\n"})
	}
	// the description is the last directive inside the host's own parentheses: what follows is the closing ')'
	for _, cl := range []string{")\n", ") # end\n", ")# x\n", ") ### x ###\n", "  )  \n", ")\nTYPE @zafter any\n", ") // no\n"} {
		if cl == ") // no\n" {
			continue // (an annotation after ')' is not allowed by the language)
		}
		out = append(out, c15Follow{paren: true, text: cl})
	}
	return append(out, c15TopFollowers...)
}

var c15FollowTexts = []string{"  one line", "  first line\n  second line", "    indented:\n\n  after a blank line\n  see GET /x, 2000 items #1"}

func c15FollowCount() int {
	n := 0
	for _, h := range c15Hosts {
		n += len(c15FollowersOf(h)) * 3 * len(c15FollowTexts)
	}
	return n
}

func c15GenFollow(r *xrand.Rand, idx int, tier string) *fw.Case {
	for _, h := range c15Hosts {
		ff := c15FollowersOf(h)
		k := len(ff) * 3 * len(c15FollowTexts)
		if idx < k {
			return &fw.Case{Meta: map[string]string{"host": h}, Ints: map[string]int{"f": idx / (3 * len(c15FollowTexts)), "nl": idx / len(c15FollowTexts) % 3, "t": idx % len(c15FollowTexts)}, Docs: []run.Doc{{}}}
		}
		idx -= k
	}
	return &fw.Case{Meta: map[string]string{"host": "info"}, Ints: map[string]int{}, Docs: []run.Doc{{}}}
}

func c15EvalFollow(t *fw.T, c *fw.Case) {
	host := c.Meta["host"]
	f := c15FollowersOf(host)[c.Ints["f"]]
	text := c15FollowTexts[c.Ints["t"]]
	nl := []string{"\n", "\r\n", "\r"}[c.Ints["nl"]]
	mk := func(body string) run.Doc { return c15FollowDoc(host, f, body, nl) }
	db, dp := mk(text), mk("(\n"+text+"\n)")
	c.Docs = []run.Doc{db, dp}
	ob, op := t.Exec(db), t.Exec(dp)
	t.Count("followers_checked")
	what := strings.TrimSpace(strings.SplitN(f.text, "\n", 2)[0])
	if what == "" || strings.HasPrefix(what, "#") {
		what = "comment-or-blank-then-TYPE"
	}
	if w := strings.Fields(what); len(w) > 0 && len(w[0]) == 3 && w[0][0] >= '1' && w[0][0] <= '5' {
		what = string(w[0][0]) + "xx" + strings.TrimPrefix(what, w[0])
	}
	sig := host + ":" + what + ":" + map[string]string{"\n": "LF", "\r\n": "CRLF", "\r": "CR"}[nl]
	if op.Outcome != run.Accepted {
		t.Violation("follower-template-rejected:"+sig, fmt.Sprintf("the parenthesised spelling is not accepted: %s\n%q", describe(op), dp.Files["root.jst"]))
		return
	}
	if ob.Outcome != run.Accepted {
		t.Violation("follower-verdict:"+sig, fmt.Sprintf("a bare description followed by %q: %s, while the parenthesised spelling is accepted\n%q", f.text, describe(ob), db.Files["root.jst"]))
		return
	}
	if string(ob.JSON) != string(op.JSON) {
		a, _ := jsonx.Parse(ob.JSON)
		b, _ := jsonx.Parse(op.JSON)
		diff := ""
		if a != nil && b != nil {
			diff = jsonx.Diff(a.Root, b.Root, "$")
		}
		t.Violation("follower-catalog:"+sig, fmt.Sprintf("a bare description followed by %q reads differently from the parenthesised spelling: %s\n%q", f.text, diff, db.Files["root.jst"]))
		return
	}
	t.Distinct("follow " + sig)
}

// c15FollowDoc builds the project: a description with the given body in the host, followed by f.
func c15FollowDoc(host string, f c15Follow, body, nl string) run.Doc {
	var head string
	open := ""
	if f.paren {
		open = "(\n"
	}
	switch host {
	case "info":
		head = "JSIGHT 0.3\nINFO\n" + open + "  Title \"t\"\n  Description\n"
	case "http":
		head = "JSIGHT 0.3\nGET /a/{id}\n" + open + "  Description\n"
	case "rpc":
		head = "JSIGHT 0.3\nURL /r\n  Protocol json-rpc-2.0\n  Method m\n" + open + "    Description\n"
	default:
		head = "JSIGHT 0.3\nTAG @t__a\nTAG @t_a\n" + open + "  Description\n"
	}
	doc := head + body + "\n" + f.text + f.tail
	files := map[string][]byte{"root.jst": []byte(strings.ReplaceAll(doc, "\n", nl))}
	for k, v := range f.file {
		files[k] = []byte(strings.ReplaceAll(v, "\n", nl))
	}
	d := run.Doc{Files: files, Root: "root.jst"}
	d.FixedSeed = true
	return d
}

// c15EvalFiles: several included files made from one template - the descriptions stand at the same byte offsets of
// different files and have different texts (one may be blank): every host must get its own text.
func c15EvalFiles(t *fw.T, c *fw.Case) {
	r := xrand.Derive(t.Seed, c.Index, "C15", "files")
	k := r.Range(2, 4)
	words := []string{"cats", "dogs", "mice", "owls", "bats"}
	host := r.Intn(3)
	paren := r.Bool()
	blankAt := -1
	if r.Chance(1, 5) {
		blankAt = r.Intn(k)
	}
	files := map[string][]byte{}
	var root strings.Builder
	root.WriteString("JSIGHT 0.3\n")
	var want []string
	for i := 0; i < k; i++ {
		w := words[(c.Index+i)%len(words)]
		text := "All the " + w + "."
		if i == blankAt {
			text = "             " // same length, blank
		}
		body := "    " + text + "\n"
		if paren {
			body = "  (\n" + body + "  )\n"
		}
		var f string
		switch host {
		case 0:
			f = fmt.Sprintf("GET /h%d\n  Description\n%s  200 any\n", i, body)
		case 1:
			f = fmt.Sprintf("TAG @g%d\n  Description\n%s", i, body)
		default:
			f = fmt.Sprintf("URL /r%d\n  Protocol json-rpc-2.0\n  Method m\n    Description\n  %s    Params\n    {}\n", i, strings.ReplaceAll(body, "\n  ", "\n    "))
		}
		name := fmt.Sprintf("part%d.jst", i)
		files[name] = []byte(f)
		root.WriteString("INCLUDE " + name + "\n")
		want = append(want, text)
	}
	files["root.jst"] = []byte(root.String())
	d := run.Doc{Files: files, Root: "root.jst"}
	c.Docs = []run.Doc{d}
	o := t.Exec(d)
	t.Count("file_projects_checked")
	if blankAt >= 0 {
		if o.Outcome == run.Accepted {
			t.Violation("blank-accepted:in-included-file", fmt.Sprintf("the description in part%d.jst is blank, the project is accepted; files %v", blankAt, filesText(files)))
		}
		return
	}
	if o.Outcome != run.Accepted {
		t.Violation("nonblank-rejected:in-included-file:"+run.MsgTemplate(o.Msg), fmt.Sprintf("%s; files %v", describe(o), filesText(files)))
		return
	}
	doc, err := jsonx.Parse(o.JSON)
	if err != nil {
		return
	}
	for i := 0; i < k; i++ {
		var n *jsonx.Node
		switch host {
		case 0:
			n = doc.Root.Get("interactions").Get(fmt.Sprintf("http GET /h%d", i)).Get("description")
		case 1:
			n = doc.Root.Get("tags").Get(fmt.Sprintf("@g%d", i)).Get("description")
		default:
			n = doc.Root.Get("interactions").Get(fmt.Sprintf("json-rpc-2.0 m /r%d", i)).Get("description")
		}
		if n == nil || n.S() != want[i] {
			got := "<missing>"
			if n != nil {
				got = n.S()
			}
			t.Violation("description-of-another-file", fmt.Sprintf("the description written in part%d.jst is %q, the catalog has %q; files %v", i, want[i], got, filesText(files)))
			return
		}
	}
	t.Distinct(fmt.Sprintf("files host%d k%d paren%v", host, k, paren))
}

func filesText(files map[string][]byte) map[string]string {
	out := map[string]string{}
	for k, v := range files {
		out[k] = string(v)
	}
	return out
}
