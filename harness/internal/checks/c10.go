package checks

import (
	"fmt"
	"os"
	"sort"
	"strings"

	"verifharness/internal/fw"
	"verifharness/internal/gen"
	"verifharness/internal/jsonx"
	"verifharness/internal/run"
	"verifharness/internal/xrand"
)

func init() {
	fw.Register(&fw.Check{
		ID:    "C10",
		Level: "exploration",
		Rule: "metamorphic: the top-level blocks of a generated model (types referencing later types, enums used inside referenced types, allOf chains of depth >= 2, tags used before TAG, Path declared after its users) are permuted - all n! orders for small n, sampled beyond - " +
			"and every permuted document is compared with the original order: same verdict; every entry of userTypes, userEnums, servers, interactions and tags has the same content (entries matched by key; a tag's interaction lists compared as the correspondingly reordered lists); " +
			"a second family permutes 2-4 hand-shaped blocks whose names, paths and JSON-RPC method names are hostile strings chosen to collide or nearly collide after serialisation (spaces, doubled spaces, quotes, non-ASCII, '/b /a' against 'a /b'): every order must give the same verdict and, when accepted, the same set of keys with the same entries; " +
			"and the key order of every collection is the order of the declarations in the permuted document (declared tags in TAG order, automatic tags in order of their first interaction). " +
			"distinct_nontrivial = distinct (number of blocks, reference features present, outcome)",
		Assumptions: []string{
			"the expected key order comes from the model projector; entry contents are compared between two real executions, not against the projector",
		},
		Families: []fw.Family{
			{Name: "permute", N: constN(700, 25000), Gen: genModelCase, Eval: c10Eval},
			{Name: "chain", N: func(string) int { return 1 }, Gen: func(r *xrand.Rand, idx int, tier string) *fw.Case {
				return &fw.Case{Meta: map[string]string{"fixed": "chain"}, Docs: []run.Doc{{}}}
			}, Eval: c10Eval},
			{Name: "hostile-blocks", N: constN(1500, 50000), Gen: c10GenHostile, Eval: c10EvalHostile},
			{Name: "reference-chains", N: constN(600, 20000), Gen: c10GenChains, Eval: c10EvalHostile},
		},
		Floors: map[string]int64{"permutations_compared": 8000, "hostile_permutations_compared": 5000},
	})
}

var c10Opt = gen.Options{MaxBlocks: 10, AllowAllOf: true, DeepAllOf: true}

func permutations(n int, limit int, r *xrand.Rand) [][]int {
	var out [][]int
	fact := 1
	for i := 2; i <= n; i++ {
		fact *= i
		if fact > limit {
			break
		}
	}
	if fact <= limit {
		p := make([]int, n)
		for i := range p {
			p[i] = i
		}
		var rec func(k int)
		rec = func(k int) {
			if k == n {
				out = append(out, append([]int{}, p...))
				return
			}
			for i := k; i < n; i++ {
				p[k], p[i] = p[i], p[k]
				rec(k + 1)
				p[k], p[i] = p[i], p[k]
			}
		}
		rec(0)
		return out[1:] // without the identity
	}
	for i := 0; i < limit; i++ {
		out = append(out, r.Perm(n))
	}
	return out
}

// canon sorts the collections by key and the tag interaction lists, so that two catalogs that differ only by reordering become equal.
func canon(n *jsonx.Node, path string) *jsonx.Node {
	if n == nil {
		return nil
	}
	switch n.Kind {
	case 'o':
		out := &jsonx.Node{Kind: 'o'}
		idx := make([]int, len(n.Keys))
		for i := range idx {
			idx[i] = i
		}
		switch path {
		case "$.tags", "$.userTypes", "$.userEnums", "$.servers", "$.interactions":
			sort.Slice(idx, func(a, b int) bool { return n.Keys[idx[a]] < n.Keys[idx[b]] })
		}
		for _, i := range idx {
			out.Keys = append(out.Keys, n.Keys[i])
			out.Vals = append(out.Vals, canon(n.Vals[i], path+"."+n.Keys[i]))
		}
		return out
	case 'a':
		out := &jsonx.Node{Kind: 'a'}
		for _, x := range n.Arr {
			out.Arr = append(out.Arr, canon(x, path+"[]"))
		}
		if strings.HasPrefix(path, "$.tags.") && strings.HasSuffix(path, ".interactions") {
			sort.Slice(out.Arr, func(a, b int) bool { return out.Arr[a].Str < out.Arr[b].Str })
		}
		return out
	}
	return n
}

func keyOrders(root *jsonx.Node) map[string][]string {
	out := map[string][]string{}
	for _, c := range []string{"tags", "userTypes", "userEnums", "servers", "interactions"} {
		if n := root.Get(c); n != nil {
			out[c] = n.Keys
		}
	}
	return out
}

// chainModel is the deterministic witness: an allOf chain a -> b -> c and a user of it.
func chainModel() *gen.Model {
	obj := func(key string, allOf ...string) *gen.SNode {
		return &gen.SNode{Kind: "object", AllOf: allOf, Props: []*gen.SProp{{Key: key, Node: &gen.SNode{Kind: "int", Val: "1"}}}}
	}
	return &gen.Model{Blocks: []*gen.Block{
		{Kind: "type", Name: "@a", Notation: "jsight", Schema: obj("ka", "@b")},
		{Kind: "type", Name: "@b", Notation: "jsight", Schema: obj("kb", "@c")},
		{Kind: "type", Name: "@c", Notation: "jsight", Schema: obj("kc")},
		{Kind: "method", Method: &gen.Method{Verb: "GET", Path: "/chain", OwnPath: true, Responses: []*gen.Response{{Code: "200", Body: gen.Body{Form: "ref", Ref: "@a"}}}}},
	}}
}

func c10Eval(t *fw.T, c *fw.Case) {
	m, r := modelOf(c, c10Opt)
	if c.Meta["fixed"] == "chain" {
		m = chainModel()
	}
	n := len(m.Blocks)
	if n < 2 {
		return
	}
	base := gen.Render(m, nil)
	db := run.Single([]byte(base.Text))
	db.FixedSeed = true
	c.Docs = []run.Doc{db}
	ob := t.Exec(db)
	if ob.Outcome != run.Accepted && ob.Outcome != run.Rejected {
		return
	}
	var cb *jsonx.Node
	if ob.Outcome == run.Accepted {
		d, err := jsonx.Parse(ob.JSON)
		if err != nil {
			return
		}
		cb = canon(d.Root, "$")
	}
	feat := ""
	if strings.Contains(base.Text, "allOf") {
		feat += "allOf "
	}
	if strings.Contains(base.Text, "enum:") {
		feat += "enum "
	}
	if strings.Contains(base.Text, " | ") {
		feat += "or "
	}
	perms := permutations(n, t.Pick(120, 720), r)
	if len(perms) > t.Pick(30, 200) && n > 5 {
		perms = perms[:t.Pick(30, 200)]
	}
	for _, p := range perms {
		pm := &gen.Model{}
		for _, i := range p {
			pm.Blocks = append(pm.Blocks, m.Blocks[i])
		}
		rd := gen.Render(pm, nil)
		dp := run.Single([]byte(rd.Text))
		dp.FixedSeed = true
		op := t.Exec(dp)
		t.Count("permutations_compared")
		fail := func(sig, msg string) {
			c.Docs = []run.Doc{db, dp}
			t.Violation(sig, fmt.Sprintf("%s\n  original order: %s\n  permuted order %v: %s\n--- original\n%s\n--- permuted\n%s", msg, describe(ob), p, describe(op), base.Text, rd.Text))
		}
		if op.Outcome != ob.Outcome {
			fail("verdict-changes:"+ob.Outcome+"->"+op.Outcome+":"+rejMsg(ob, op), "reordering the top-level declarations changes the verdict")
			return
		}
		if ob.Outcome != run.Accepted {
			continue
		}
		d, err := jsonx.Parse(op.JSON)
		if err != nil {
			return
		}
		if diff := jsonx.Diff(cb, canon(d.Root, "$"), "$"); diff != "" {
			if !strings.Contains(diff, "usedUserTypes") {
				fail("entry-content-changes:"+diffClass(diff), "reordering the top-level declarations changes the content of an entry: "+diff)
				return
			}
			// a used-type list differs. One cause is a recorded finding (transitive allOf bases are listed or not, depending
			// on which type was processed first): the lists then differ only by types reachable through allOf rules from
			// the entry's own bases, and agree on the order of everything else. Any other difference is reported apart.
			if where, why := c10UsedTypesDiffer(cb, canon(d.Root, "$")); why != "" {
				fail("entry-content-changes:usedUserTypes:"+why, "reordering the top-level declarations changes a list of used types other than by transitive allOf bases: "+where)
				return
			}
			fail("entry-content-changes:$.userTypes.*.schema.usedUserTypes:differs", "reordering the top-level declarations changes the content of an entry: "+diff)
			// the used-type lists are a recorded finding: keep looking at everything else
			if diff2 := jsonx.Diff(stripKey(cb, "usedUserTypes"), stripKey(canon(d.Root, "$"), "usedUserTypes"), "$"); diff2 != "" {
				fail("entry-content-changes:"+diffClass(diff2), "reordering the top-level declarations changes the content of an entry: "+diff2)
				return
			}
		}
		// the key order must follow the permuted declarations
		want := keyOrders(gen.Expected(pm))
		got := keyOrders(d.Root)
		for _, coll := range []string{"userTypes", "userEnums", "servers", "interactions", "tags"} {
			if strings.Join(want[coll], "\x00") != strings.Join(got[coll], "\x00") {
				fail("order-not-permuted:"+coll, fmt.Sprintf("collection %s is listed as %v, the declarations stand in the order %v", coll, got[coll], want[coll]))
				return
			}
		}
		// tag interaction lists follow the interaction order
		inter := got["interactions"]
		pos := map[string]int{}
		for i, k := range inter {
			pos[k] = i
		}
		tags := d.Root.Get("tags")
		for ti := range tags.Keys {
			for _, g := range tags.Vals[ti].Get("interactionGroups").Arr0() {
				last := -1
				for _, id := range g.Get("interactions").Strings() {
					if pos[id] < last {
						fail("tag-list-order", fmt.Sprintf("tag %s lists its interactions out of declaration order", tags.Keys[ti]))
						return
					}
					last = pos[id]
				}
			}
		}
	}
	t.Distinct(fmt.Sprintf("n%d %s%s", n, feat, ob.Outcome))
	t.Sample("permute", map[string]interface{}{"blocks": n, "orders": len(perms), "outcome": ob.Outcome, "document": base.Text})
}

// stripKey returns a copy of the tree without the objects' entries under key.
func stripKey(n *jsonx.Node, key string) *jsonx.Node {
	if n == nil {
		return nil
	}
	switch n.Kind {
	case 'o':
		out := &jsonx.Node{Kind: 'o'}
		for i, k := range n.Keys {
			if k == key {
				continue
			}
			out.Keys = append(out.Keys, k)
			out.Vals = append(out.Vals, stripKey(n.Vals[i], key))
		}
		return out
	case 'a':
		out := &jsonx.Node{Kind: 'a'}
		for _, x := range n.Arr {
			out.Arr = append(out.Arr, stripKey(x, key))
		}
		return out
	}
	return n
}


// ---- hostile names: blocks whose identifiers collide or nearly collide ----

func c10GenHostile(r *xrand.Rand, idx int, tier string) *fw.Case {
	h := func() string { return hostile[r.Intn(len(hostile))] }
	pick := func(ss ...string) string { return ss[r.Intn(len(ss))] }
	n := r.Range(2, 4)
	var blocks []string
	// a small pool so that collisions are likely
	pool := []string{h(), h(), "a", "b /a", "a /b", "/b /a", "x", "x /y", "a  b", "a b"}
	pp := func() string { return pool[r.Intn(len(pool))] }
	if r.Chance(1, 4) {
		// two JSON-RPC methods with different (method, path) pairs but one textual id: "M P1" at P2 against M at "P1 P2"
		m, p1, p2 := pick("a", "x", "m"), pick("/b", "/y"), pick("/a", "/r")
		blocks = append(blocks,
			"URL "+quoteParam(p2)+"\n  Protocol json-rpc-2.0\n  Method "+quoteParam(m+" "+p1)+"\n    Params\n    {}\n",
			"URL "+quoteParam(p1+" "+p2)+"\n  Protocol json-rpc-2.0\n  Method "+quoteParam(m)+"\n    Params\n    {}\n")
		n -= 2
	}
	for i := 0; i < n; i++ {
		switch r.Intn(6) {
		case 0, 1: // JSON-RPC block
			u := "/" + pp()
			b := "URL " + quoteParam(u) + "\n  Protocol json-rpc-2.0\n"
			for k := r.Range(1, 2); k > 0; k-- {
				b += "  Method " + quoteParam(pp()) + "\n    Params\n    {}\n"
			}
			blocks = append(blocks, b)
		case 2: // path-bearing method
			blocks = append(blocks, pick("GET", "POST")+" "+quoteParam("/"+pp())+"\n  200 any\n")
		case 3: // URL block with methods
			blocks = append(blocks, "URL "+quoteParam("/"+pp())+"\n  "+pick("GET", "POST")+"\n    200 any\n")
		case 4: // path with parameters differing in name only
			blocks = append(blocks, "GET /p/{"+pick("a", "b", "a")+"}/"+pick("x", "y", "x")+"\n  200 any\n")
		default:
			blocks = append(blocks, pick("TAG @"+pick("a", "b"), "TYPE @"+pick("a", "b")+" any", "SERVER @"+pick("a", "b")+"\n  BaseUrl \"https://"+pick("a", "b")+"/\"", "ENUM @"+pick("a", "b")+"\n[1]")+"\n")
		}
	}
	return &fw.Case{Meta: map[string]string{"blocks": strings.Join(blocks, "\x00")}, Docs: []run.Doc{{}}}
}

// c10GenChains: a chain of user types that are nothing but references to the next one (TYPE @a / @b), ending in an
// object, and one or two blocks that use the head of the chain where an object is asked for (Headers, the body of a
// Path or Query directive, JSON-RPC Params, an allOf base) or a body: the links, the end and the users in every order.
func c10GenChains(r *xrand.Rand, idx int, tier string) *fw.Case {
	if idx%3 == 2 {
		// the three forms of a Path body side by side: a reference (through an alias), an object that inherits a
		// parameter, a plain object - each in a block of its own
		blocks := []string{
			"TYPE @pbase\n  {\n    \"id\": 1 // the id\n  }\n",
			"TYPE @pwhole\n  {\n    \"id\": 2\n  }\n",
			"TYPE @palias\n  @pwhole\n",
			"URL /cats/{id}\n  Path\n    @palias\n  GET\n    200 any\n",
			"URL /dogs/{kennel}/{id}\n  Path\n    { // {allOf: \"@pbase\"}\n      \"kennel\": \"k\"\n    }\n  GET\n    200 any\n",
		}
		if r.Bool() {
			blocks = append(blocks, "GET /birds/{id}/x\n  Path\n    {\n      \"id\": 3\n    }\n  200 any\n")
		}
		if r.Bool() {
			blocks = append(blocks, "POST /fish/{tank}/{id}\n  Path\n    { // {allOf: \"@pwhole\"}\n      \"tank\": 7\n    }\n  Request any\n  200 any\n")
		}
		return &fw.Case{Meta: map[string]string{"blocks": strings.Join(blocks, "\x00")}, Docs: []run.Doc{{}}}
	}
	if idx%3 == 1 && idx%2 == 0 {
		// a chain of heirs over a base that has a key shortcut next to ordinary properties: what each heir lists must
		// not depend on whether the type in the middle was declared (and processed) before or after it
		blocks := []string{
			"TYPE @kbase\n  {\n    \"lit\": 1,\n    @kkey : 4\n  }\n",
			"TYPE @kkey\n  \"k\"\n",
			"TYPE @kmid\n  { // {allOf: \"@kbase\"}\n    \"mid\": 2\n  }\n",
			"TYPE @kheir\n  { // {allOf: \"@kmid\"}\n    \"own\": 3\n  }\n",
		}
		if r.Bool() {
			blocks = append(blocks, "GET /kx\n  200 @kheir\n")
		}
		if r.Bool() {
			blocks = append(blocks, "TYPE @kheir2\n  { // {allOf: [\"@kmid\"]}\n    \"own2\": 5\n  }\n")
		}
		return &fw.Case{Meta: map[string]string{"blocks": strings.Join(blocks, "\x00")}, Docs: []run.Doc{{}}}
	}
	n := r.Range(1, 3) // links before the object
	var blocks []string
	for i := 0; i < n; i++ {
		blocks = append(blocks, fmt.Sprintf("TYPE @link%d\n  @link%d\n", i, i+1))
	}
	blocks = append(blocks, fmt.Sprintf("TYPE @link%d\n  {\n    \"id\": 1,\n    \"X-Token\": \"t\" // {optional: true}\n  }\n", n))
	users := []string{
		"POST /u1\n  Request\n    Headers\n      @link0\n    Body any\n  200 any\n",
		"GET /u2\n  200\n    Headers\n      @link0\n    Body any\n",
		"GET /u3/{id}\n  Path\n    @link0\n  200 any\n",
		"GET /u4\n  Query\n    @link0\n  200 any\n",
		"URL /u5\n  Protocol json-rpc-2.0\n  Method m\n    Params\n      @link0\n    Result\n      [@link0]\n",
		"GET /u6\n  200 @link0\nPOST /u6\n  Request @link1\n  201 [@link0]\n",
		"TYPE @heir\n  { // {allOf: \"@link" + fmt.Sprint(n) + "\"}\n    \"own\": 1\n  }\nGET /u7\n  200 @heir\n",
		"GET /u8\n  200\n    {\n      \"a\": @link0,\n      \"b\": @link1 | @link0\n    }\n",
	}
	for k := r.Range(1, 2); k > 0; k-- {
		u := users[r.Intn(len(users))]
		dup := false
		for _, b := range blocks {
			if b == u {
				dup = true
			}
		}
		if !dup {
			blocks = append(blocks, u)
		}
	}
	return &fw.Case{Meta: map[string]string{"blocks": strings.Join(blocks, "\x00")}, Docs: []run.Doc{{}}}
}

func c10EvalHostile(t *fw.T, c *fw.Case) {
	blocks := strings.Split(c.Meta["blocks"], "\x00")
	r := xrand.Derive(t.Seed, c.Index, "C10", "hostile")
	perms := permutations(len(blocks), 24, r)
	render := func(p []int) string {
		var sb strings.Builder
		sb.WriteString("JSIGHT 0.3\n")
		for _, i := range p {
			sb.WriteString(blocks[i])
		}
		return sb.String()
	}
	var base *run.Obs
	var baseText string
	var baseRoot *jsonx.Node
	for k, p := range perms {
		text := render(p)
		d := run.Single([]byte(text))
		d.FixedSeed = true
		o := t.Exec(d)
		if o.Outcome == run.Panic || o.Outcome == run.Budget {
			c.Docs = []run.Doc{d}
			t.Violation("permuted-crashes:"+outcomeSig(o), fmt.Sprintf("%s\n%s", describe(o), text))
			return
		}
		if k == 0 {
			base, baseText = o, text
			if o.Outcome == run.Accepted {
				if j, err := jsonx.Parse(o.JSON); err == nil {
					baseRoot = j.Root
				}
			}
			continue
		}
		t.Count("hostile_permutations_compared")
		if o.Outcome != base.Outcome {
			c.Docs = []run.Doc{run.Single([]byte(baseText)), d}
			t.Violation("verdict-changes:"+base.Outcome+"->"+o.Outcome+":"+run.MsgTemplate(base.Msg+o.Msg), fmt.Sprintf("reordering the top-level blocks changes the verdict\n--- %s\n%s\n--- %s\n%s", describe(base), baseText, describe(o), text))
			return
		}
		if o.Outcome != run.Accepted || baseRoot == nil {
			continue
		}
		j, err := jsonx.Parse(o.JSON)
		if err != nil {
			continue
		}
		for _, coll := range []string{"interactions", "userTypes", "userEnums", "servers"} {
			a, b := baseRoot.Get(coll), j.Root.Get(coll)
			if a == nil || b == nil {
				continue
			}
			if len(a.Keys) != len(b.Keys) {
				c.Docs = []run.Doc{run.Single([]byte(baseText)), d}
				t.Violation("entry-set-changes:"+coll, fmt.Sprintf("reordering changes the number of %s entries (%d vs %d)\n--- \n%s\n--- \n%s", coll, len(a.Keys), len(b.Keys), baseText, text))
				return
			}
			for i, key := range a.Keys {
				other := b.Get(key)
				if other == nil {
					c.Docs = []run.Doc{run.Single([]byte(baseText)), d}
					t.Violation("entry-set-changes:"+coll, fmt.Sprintf("reordering loses the %s entry %q\n--- \n%s\n--- \n%s", coll, key, baseText, text))
					return
				}
				if diff := jsonx.Diff(stripKey(a.Vals[i], "tags"), stripKey(other, "tags"), "$."+coll+".*"); diff != "" {
					c.Docs = []run.Doc{run.Single([]byte(baseText)), d}
					t.Violation("entry-content-changes:"+diffClass(diff), fmt.Sprintf("reordering changes the entry %q: %s\n--- \n%s\n--- \n%s", key, diff, baseText, text))
					return
				}
			}
		}
	}
	t.Count("hostile_documents_" + base.Outcome)
	t.Distinct(fmt.Sprintf("hostile n%d %s %s", len(blocks), base.Outcome, run.MsgTemplate(base.Msg)))
}

// c10UsedTypesDiffer compares every usedUserTypes list of two catalogs (same key sets). It returns "" when every
// difference is of the recorded kind: the members that only one list has are reachable through allOf rules (at any depth
// of the schemas) from an allOf base of the schema that owns the list, and the common members stand in the same order.
func c10UsedTypesDiffer(a, b *jsonx.Node) (where, why string) {
	// allOf edges between user types, taken from the catalog itself
	edges := map[string][]string{}
	allOfOf := func(n *jsonx.Node) []string {
		var out []string
		jsonx.Walk(n, "$", func(_ string, x *jsonx.Node) {
			if x.Kind != 'o' {
				return
			}
			for _, rule := range x.Get("rules").Arr0() {
				if rule.Get("key").S() != "allOf" {
					continue
				}
				if v := rule.Get("scalarValue").S(); v != "" {
					out = append(out, v)
				}
				for _, ch := range rule.Get("children").Arr0() {
					if v := ch.Get("scalarValue").S(); v != "" {
						out = append(out, v)
					}
				}
			}
		})
		return out
	}
	if ut := a.Get("userTypes"); ut != nil {
		for i, k := range ut.Keys {
			edges[k] = allOfOf(ut.Vals[i])
		}
	}
	reach := func(from []string) map[string]bool {
		seen := map[string]bool{}
		var visit func(string)
		visit = func(n string) {
			for _, m := range edges[n] {
				if !seen[m] {
					seen[m] = true
					visit(m)
				}
			}
		}
		for _, f := range from {
			visit(f)
		}
		return seen
	}
	lists := func(root *jsonx.Node) (map[string][]string, map[string]*jsonx.Node) {
		out := map[string][]string{}
		owner := map[string]*jsonx.Node{}
		jsonx.Walk(root, "$", func(path string, x *jsonx.Node) {
			if x.Kind == 'o' && x.Has("usedUserTypes") {
				out[path] = x.Get("usedUserTypes").Strings()
				owner[path] = x
			}
		})
		return out, owner
	}
	la, oa := lists(a)
	lb, _ := lists(b)
	var paths []string
	for p := range la {
		paths = append(paths, p)
	}
	for p := range lb {
		if _, ok := la[p]; !ok {
			paths = append(paths, p)
		}
	}
	sort.Strings(paths)
	for _, p := range paths {
		x, y := la[p], lb[p]
		if strings.Join(x, "\x00") == strings.Join(y, "\x00") {
			continue
		}
		inX, inY := map[string]bool{}, map[string]bool{}
		for _, v := range x {
			inX[v] = true
		}
		for _, v := range y {
			inY[v] = true
		}
		var cx, cy, only []string
		for _, v := range x {
			if inY[v] {
				cx = append(cx, v)
			} else {
				only = append(only, v)
			}
		}
		for _, v := range y {
			if inX[v] {
				cy = append(cy, v)
			} else {
				only = append(only, v)
			}
		}
		desc := fmt.Sprintf("%s: %v vs %v", p, x, y)
		if strings.Join(cx, "\x00") != strings.Join(cy, "\x00") {
			return desc, "order-of-common-members"
		}
		own := oa[p]
		if own == nil {
			return desc, "list-appears"
		}
		r := reach(allOfOf(own))
		for _, v := range only {
			if !r[v] {
				return desc, "member-not-a-transitive-base"
			}
		}
	}
	return "", ""
}

// aux c10diff <a.jst> <b.jst>: how the used-type lists of two orderings of one document differ (triage helper)
func init() {
	fw.RegisterAux("c10diff", func(args []string) int {
		if len(args) < 2 {
			return 2
		}
		var roots []*jsonx.Node
		for _, f := range args[:2] {
			b, err := os.ReadFile(f)
			if err != nil {
				fmt.Println(err)
				return 2
			}
			o := run.Exec(run.Single(b), false)
			if o.Outcome != run.Accepted {
				fmt.Println(f, describe(o))
				return 1
			}
			d, err := jsonx.Parse(o.JSON)
			if err != nil {
				return 2
			}
			roots = append(roots, canon(d.Root, "$"))
		}
		where, why := c10UsedTypesDiffer(roots[0], roots[1])
		fmt.Printf("generic diff: %s\nused-type lists: why=%q where=%s\n", jsonx.Diff(roots[0], roots[1], "$"), why, where)
		return 0
	})
}
