package checks

import (
	"fmt"
	"sort"
	"strings"

	"verifharness/internal/fw"
	"verifharness/internal/gen"
	"verifharness/internal/jsonx"
	"verifharness/internal/run"
	"verifharness/internal/xrand"
)

func init() {
	fw.Register(&fw.Check{
		ID:    "C10",
		Level: "exploration",
		Rule: "metamorphic: the top-level blocks of a generated model (types referencing later types, enums used inside referenced types, allOf chains of depth >= 2, tags used before TAG, Path declared after its users) are permuted - all n! orders for small n, sampled beyond - " +
			"and every permuted document is compared with the original order: same verdict; every entry of userTypes, userEnums, servers, interactions and tags has the same content (entries matched by key; a tag's interaction lists compared as the correspondingly reordered lists); " +
			"and the key order of every collection is the order of the declarations in the permuted document (declared tags in TAG order, automatic tags in order of their first interaction). " +
			"distinct_nontrivial = distinct (number of blocks, reference features present, outcome)",
		Assumptions: []string{
			"the expected key order comes from the model projector; entry contents are compared between two real executions, not against the projector",
		},
		Families: []fw.Family{
			{Name: "permute", N: constN(700, 25000), Gen: genModelCase, Eval: c10Eval},
			{Name: "chain", N: func(string) int { return 1 }, Gen: func(r *xrand.Rand, idx int, tier string) *fw.Case {
				return &fw.Case{Meta: map[string]string{"fixed": "chain"}, Docs: []run.Doc{{}}}
			}, Eval: c10Eval},
		},
		Floors: map[string]int64{"permutations_compared": 8000},
	})
}

var c10Opt = gen.Options{MaxBlocks: 10, AllowAllOf: true, DeepAllOf: true}

func permutations(n int, limit int, r *xrand.Rand) [][]int {
	var out [][]int
	fact := 1
	for i := 2; i <= n; i++ {
		fact *= i
		if fact > limit {
			break
		}
	}
	if fact <= limit {
		p := make([]int, n)
		for i := range p {
			p[i] = i
		}
		var rec func(k int)
		rec = func(k int) {
			if k == n {
				out = append(out, append([]int{}, p...))
				return
			}
			for i := k; i < n; i++ {
				p[k], p[i] = p[i], p[k]
				rec(k + 1)
				p[k], p[i] = p[i], p[k]
			}
		}
		rec(0)
		return out[1:] // without the identity
	}
	for i := 0; i < limit; i++ {
		out = append(out, r.Perm(n))
	}
	return out
}

// canon sorts the collections by key and the tag interaction lists, so that two catalogs that differ only by reordering become equal.
func canon(n *jsonx.Node, path string) *jsonx.Node {
	if n == nil {
		return nil
	}
	switch n.Kind {
	case 'o':
		out := &jsonx.Node{Kind: 'o'}
		idx := make([]int, len(n.Keys))
		for i := range idx {
			idx[i] = i
		}
		switch path {
		case "$.tags", "$.userTypes", "$.userEnums", "$.servers", "$.interactions":
			sort.Slice(idx, func(a, b int) bool { return n.Keys[idx[a]] < n.Keys[idx[b]] })
		}
		for _, i := range idx {
			out.Keys = append(out.Keys, n.Keys[i])
			out.Vals = append(out.Vals, canon(n.Vals[i], path+"."+n.Keys[i]))
		}
		return out
	case 'a':
		out := &jsonx.Node{Kind: 'a'}
		for _, x := range n.Arr {
			out.Arr = append(out.Arr, canon(x, path+"[]"))
		}
		if strings.HasPrefix(path, "$.tags.") && strings.HasSuffix(path, ".interactions") {
			sort.Slice(out.Arr, func(a, b int) bool { return out.Arr[a].Str < out.Arr[b].Str })
		}
		return out
	}
	return n
}

func keyOrders(root *jsonx.Node) map[string][]string {
	out := map[string][]string{}
	for _, c := range []string{"tags", "userTypes", "userEnums", "servers", "interactions"} {
		if n := root.Get(c); n != nil {
			out[c] = n.Keys
		}
	}
	return out
}

// chainModel is the deterministic witness: an allOf chain a -> b -> c and a user of it.
func chainModel() *gen.Model {
	obj := func(key string, allOf ...string) *gen.SNode {
		return &gen.SNode{Kind: "object", AllOf: allOf, Props: []*gen.SProp{{Key: key, Node: &gen.SNode{Kind: "int", Val: "1"}}}}
	}
	return &gen.Model{Blocks: []*gen.Block{
		{Kind: "type", Name: "@a", Notation: "jsight", Schema: obj("ka", "@b")},
		{Kind: "type", Name: "@b", Notation: "jsight", Schema: obj("kb", "@c")},
		{Kind: "type", Name: "@c", Notation: "jsight", Schema: obj("kc")},
		{Kind: "method", Method: &gen.Method{Verb: "GET", Path: "/chain", OwnPath: true, Responses: []*gen.Response{{Code: "200", Body: gen.Body{Form: "ref", Ref: "@a"}}}}},
	}}
}

func c10Eval(t *fw.T, c *fw.Case) {
	m, r := modelOf(c, c10Opt)
	if c.Meta["fixed"] == "chain" {
		m = chainModel()
	}
	n := len(m.Blocks)
	if n < 2 {
		return
	}
	base := gen.Render(m, nil)
	db := run.Single([]byte(base.Text))
	db.FixedSeed = true
	c.Docs = []run.Doc{db}
	ob := t.Exec(db)
	if ob.Outcome != run.Accepted && ob.Outcome != run.Rejected {
		return
	}
	var cb *jsonx.Node
	if ob.Outcome == run.Accepted {
		d, err := jsonx.Parse(ob.JSON)
		if err != nil {
			return
		}
		cb = canon(d.Root, "$")
	}
	feat := ""
	if strings.Contains(base.Text, "allOf") {
		feat += "allOf "
	}
	if strings.Contains(base.Text, "enum:") {
		feat += "enum "
	}
	if strings.Contains(base.Text, " | ") {
		feat += "or "
	}
	perms := permutations(n, t.Pick(120, 720), r)
	if len(perms) > t.Pick(30, 200) && n > 5 {
		perms = perms[:t.Pick(30, 200)]
	}
	for _, p := range perms {
		pm := &gen.Model{}
		for _, i := range p {
			pm.Blocks = append(pm.Blocks, m.Blocks[i])
		}
		rd := gen.Render(pm, nil)
		dp := run.Single([]byte(rd.Text))
		dp.FixedSeed = true
		op := t.Exec(dp)
		t.Count("permutations_compared")
		fail := func(sig, msg string) {
			c.Docs = []run.Doc{db, dp}
			t.Violation(sig, fmt.Sprintf("%s\n  original order: %s\n  permuted order %v: %s\n--- original\n%s\n--- permuted\n%s", msg, describe(ob), p, describe(op), base.Text, rd.Text))
		}
		if op.Outcome != ob.Outcome {
			fail("verdict-changes:"+ob.Outcome+"->"+op.Outcome+":"+rejMsg(ob, op), "reordering the top-level declarations changes the verdict")
			return
		}
		if ob.Outcome != run.Accepted {
			continue
		}
		d, err := jsonx.Parse(op.JSON)
		if err != nil {
			return
		}
		if diff := jsonx.Diff(cb, canon(d.Root, "$"), "$"); diff != "" {
			fail("entry-content-changes:"+diffClass(diff), "reordering the top-level declarations changes the content of an entry: "+diff)
			if !strings.Contains(diff, "usedUserTypes") {
				return
			}
			// the used-type lists are a recorded finding: keep looking at everything else
			if diff2 := jsonx.Diff(stripKey(cb, "usedUserTypes"), stripKey(canon(d.Root, "$"), "usedUserTypes"), "$"); diff2 != "" {
				fail("entry-content-changes:"+diffClass(diff2), "reordering the top-level declarations changes the content of an entry: "+diff2)
				return
			}
		}
		// the key order must follow the permuted declarations
		want := keyOrders(gen.Expected(pm))
		got := keyOrders(d.Root)
		for _, coll := range []string{"userTypes", "userEnums", "servers", "interactions", "tags"} {
			if strings.Join(want[coll], "\x00") != strings.Join(got[coll], "\x00") {
				fail("order-not-permuted:"+coll, fmt.Sprintf("collection %s is listed as %v, the declarations stand in the order %v", coll, got[coll], want[coll]))
				return
			}
		}
		// tag interaction lists follow the interaction order
		inter := got["interactions"]
		pos := map[string]int{}
		for i, k := range inter {
			pos[k] = i
		}
		tags := d.Root.Get("tags")
		for ti := range tags.Keys {
			for _, g := range tags.Vals[ti].Get("interactionGroups").Arr0() {
				last := -1
				for _, id := range g.Get("interactions").Strings() {
					if pos[id] < last {
						fail("tag-list-order", fmt.Sprintf("tag %s lists its interactions out of declaration order", tags.Keys[ti]))
						return
					}
					last = pos[id]
				}
			}
		}
	}
	t.Distinct(fmt.Sprintf("n%d %s%s", n, feat, ob.Outcome))
	t.Sample("permute", map[string]interface{}{"blocks": n, "orders": len(perms), "outcome": ob.Outcome, "document": base.Text})
}

// stripKey returns a copy of the tree without the objects' entries under key.
func stripKey(n *jsonx.Node, key string) *jsonx.Node {
	if n == nil {
		return nil
	}
	switch n.Kind {
	case 'o':
		out := &jsonx.Node{Kind: 'o'}
		for i, k := range n.Keys {
			if k == key {
				continue
			}
			out.Keys = append(out.Keys, k)
			out.Vals = append(out.Vals, stripKey(n.Vals[i], key))
		}
		return out
	case 'a':
		out := &jsonx.Node{Kind: 'a'}
		for _, x := range n.Arr {
			out.Arr = append(out.Arr, stripKey(x, key))
		}
		return out
	}
	return n
}
