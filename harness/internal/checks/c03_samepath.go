package checks

import (
	"fmt"
	"os"
	"path/filepath"
	"strings"

	"verifharness/internal/fw"
	"verifharness/internal/run"
)

// Family "same-path-moved-include" (seeded change C16-R: a cache of include traces that outlives the parse and is
// keyed by the path of the including file). Two projects that live at ONE path one after the other - the usual life
// of a file being edited - and differ only in the line on which the INCLUDE stands; the included file has a fault
// that is found after scanning (so the diagnostic's include trace is built from what the scanner recorded). Project
// A, then project B, then project A again, all in one process at one path:
//   (1) A gives the same result both times;
//   (2) B gives the result it gives as the first project ever processed at a path (a second, fresh directory), the
//       directory name aside;
//   (3) every trace entry that names the edited file carries the line on which the INCLUDE stands in the text that
//       was processed, not in the text that stood there before.
// variant 0: the root file is edited; variant 1: the root is constant and includes mid.jst, which is edited.
var c03IncFaults = []string{
	"GET /a\n  200 @nosuch\n",
	"TYPE @t\n{\n  \"x\": @nosuch\n}\n",
	"GET /a\n  Tags @nosuch\n  200 any\n",
	"TYPE @h\n{ // {allOf: \"@nobase\"}\n}\n",
	"GET /a/{id}\n  Path\n  {\"nosuch\": 1}\n  200 any\n",
	"TYPE @d\n1\nTYPE @d\n2\n",
}

var c03PadA = []int{0, 1, 3}
var c03PadB = []int{2, 5, 8}

func c03SamePathN() int { return len(c03IncFaults) * len(c03PadA) * len(c03PadB) * 2 }

func c03EvalSamePath(t *fw.T, c *fw.Case) {
	idx := c.Ints["i"]
	variant := idx % 2
	idx /= 2
	pb := c03PadB[idx%len(c03PadB)]
	idx /= len(c03PadB)
	pa := c03PadA[idx%len(c03PadA)]
	idx /= len(c03PadA)
	fault := c03IncFaults[idx%len(c03IncFaults)]
	edited := func(pad int, head, target string) (string, uint) {
		var sb strings.Builder
		sb.WriteString(head)
		line := uint(strings.Count(head, "\n"))
		for k := 0; k < pad; k++ {
			if k%2 == 0 {
				sb.WriteString("# padding\n")
			} else {
				sb.WriteString("\n")
			}
			line++
		}
		sb.WriteString("INCLUDE " + target + "\n")
		return sb.String(), line + 1
	}
	editedName, head, target := "root.jst", "JSIGHT 0.3\n", "inc.jst"
	if variant == 1 {
		editedName, head, target = "mid.jst", "", "inc.jst"
	}
	textA, lineA := edited(pa, head, target)
	textB, lineB := edited(pb, head, target)
	dirs := []string{run.ScratchSub(fmt.Sprintf("c03same-%d-x", c.Ints["i"])), run.ScratchSub(fmt.Sprintf("c03same-%d-y", c.Ints["i"]))}
	for _, dir := range dirs {
		_ = os.RemoveAll(dir)
		_ = os.MkdirAll(dir, 0o755)
		_ = os.WriteFile(filepath.Join(dir, "inc.jst"), []byte(fault), 0o644)
	}
	defer func() {
		for _, dir := range dirs {
			_ = os.RemoveAll(dir)
		}
	}()
	doc := func(dir, text string) run.Doc {
		d := run.Doc{Files: map[string][]byte{"inc.jst": []byte(fault)}, Root: "root.jst", OnDisk: true, ReuseDir: dir}
		if variant == 0 {
			d.Files["root.jst"] = []byte(text)
		} else {
			d.Files["root.jst"] = []byte("JSIGHT 0.3\nINCLUDE mid.jst\n")
			d.Files["mid.jst"] = []byte(text)
			_ = os.WriteFile(filepath.Join(dir, "mid.jst"), []byte(text), 0o644)
		}
		return d
	}
	norm := func(o *run.Obs, dir string) string {
		return strings.ReplaceAll(fmt.Sprintf("%s|%s|%d|%d|%s|%s|%s|%s", o.Outcome, o.ErrText, o.Index, o.Line, o.Quote, o.NewErr, o.PanicVal, o.JSON), dir, "<DIR>")
	}
	lines := func(o *run.Obs, want uint, which string) bool {
		seen := false
		for _, it := range o.Trace {
			if filepath.Base(it.Path) != editedName {
				continue
			}
			seen = true
			t.Count("trace_entries_of_edited_file_checked")
			if it.Line != want {
				t.Violation("depends-on-earlier-text-at-same-path:trace-line", fmt.Sprintf("%s: the include trace names %s:%d, the INCLUDE stands on line %d of the text that was processed (another text stood at this path before)\n  %s\n  edited file %q\n  included file %q",
					which, it.Path, it.Line, want, describe(o), textB, fault))
				return false
			}
		}
		if seen {
			t.Count("results_with_trace_of_edited_file")
		}
		return true
	}
	// doc() puts the edited file in place (variant 1), so each project is built right before it is processed
	a1 := t.Exec(doc(dirs[0], textA))
	b1 := t.Exec(doc(dirs[0], textB))
	a2 := t.Exec(doc(dirs[0], textA))
	bAlone := t.Exec(doc(dirs[1], textB))
	c.Docs = []run.Doc{doc(dirs[1], textA), doc(dirs[1], textB)}
	t.Count("repetitions")
	t.Count("same_path_sequences")
	if a1.Outcome == run.Rejected && b1.Outcome == run.Rejected {
		t.Count("same_path_sequences_rejected")
	}
	if norm(a1, dirs[0]) != norm(a2, dirs[0]) {
		t.Violation("depends-on-earlier-text-at-same-path:"+c03Sig(a1, a2), fmt.Sprintf("the same project gives another result after another text was processed at the same path:\n  before: %s\n  after:  %s\n  in between: %s\n  edited file %s: %q, in between %q\n  included file %q",
			describe(a1), describe(a2), describe(b1), editedName, textA, textB, fault))
		return
	}
	if norm(b1, dirs[0]) != norm(bAlone, dirs[1]) {
		t.Violation("depends-on-earlier-text-at-same-path:"+c03Sig(bAlone, b1), fmt.Sprintf("a project gives another result when another text was processed at its path before than as the first project at a path:\n  first at its path: %s\n  after another text: %s\n  edited file %s: %q, before it %q\n  included file %q",
			describe(bAlone), describe(b1), editedName, textB, textA, fault))
		return
	}
	if !lines(a1, lineA, "first text") || !lines(b1, lineB, "second text") || !lines(a2, lineA, "first text again") {
		return
	}
	t.Distinct(fmt.Sprintf("same path: variant %d fault %d", variant, idx%len(c03IncFaults)))
}
