package checks

import (
	"fmt"
	"strings"

	"github.com/jsightapi/jsight-api-go-library/catalog"

	"verifharness/internal/fw"
	"verifharness/internal/jsonx"
	"verifharness/internal/run"
	"verifharness/internal/xrand"
)

var c19SegSymbols = []string{"_", "%", ".", " ", "2", "5", "a", "é", "@"}

func init() {
	fw.Register(&fw.Check{
		ID:    "C19",
		Level: "exploration",
		Rule: "(1) injectivity of the automatic tag name, exhaustive: for every first-segment string up to the bound over {_ % . space 2 5 a é @} the real name function (hook) is evaluated and any two different segments must get different names, equal segments equal names; " +
			"the same strings also go end to end as paths of one document in batches, where the catalog's tag names must be pairwise different; " +
			"(2) precedence, model-based: generated documents mix TAG declarations, URL blocks with or without Tags, HTTP and JSON-RPC methods with or without own Tags, path-bearing methods hoisted out of URL blocks, methods arriving through PASTE; " +
			"the reference says: own Tags, else the enclosing URL's Tags, else the one automatic tag of the first path segment; every interaction has a tag; same first segment shares the tag, different first segments differ; declared title = annotation or name; an undeclared explicit tag is rejected. " +
			"distinct_nontrivial = distinct (source-of-tags pattern per document) plus distinct automatic names seen",
		Assumptions: []string{
			"the automatic tag's name itself is not predicted, only its title ('/' + first segment), sharing and distinctness",
			"declared tag names are kept apart from automatic ones by the generator (the statement is silent on that overlap)",
		},
		Exhaustive: true,
		Families: []fw.Family{
			{Name: "injective", Stream: c19StreamInjective, Eval: c19EvalInjective},
			{Name: "precedence", N: constN(6000, 150000), Gen: c19GenDoc, Eval: c19EvalDoc},
		},
		Floors: map[string]int64{"segments_named": 5000, "interactions_checked": 10000},
	})
}

// ---- injectivity ----

func c19StreamInjective(t *fw.T, shard, nshards int, emit func(*fw.Case)) {
	maxLen := t.Pick(5, 6)
	// every shard enumerates everything for the global map (cheap), end-to-end batches are sharded
	var batch []string
	nb := 0
	flush := func() {
		if len(batch) == 0 {
			return
		}
		nb++
		if nb%nshards == shard {
			emit(&fw.Case{Meta: map[string]string{"segs": strings.Join(batch, "\x00")}, Docs: []run.Doc{{}}})
		} else {
			emit(nil)
		}
		batch = nil
	}
	names := map[string]string{}
	enumerate(c19SegSymbols, maxLen, func(s string) {
		if shard == 0 {
			t.Count("segments_named")
			title := catalog.VerifPathTagTitle("/" + s)
			name := catalog.VerifTagName(title)
			key := title // two segments with one title are the same first segment as far as the title function goes
			if prev, ok := names[name]; ok && prev != key {
				t.Violation("auto-name-collision", fmt.Sprintf("first segments with titles %q and %q both get the automatic tag name %q", prev, key, name))
			}
			names[name] = key
			if title != "/"+s && !(strings.Trim(s, ".") == "" || s == "") {
				// the title is the first segment itself unless the segment is skipped ('.' segments)
				if !strings.HasPrefix(s, ".") {
					t.Violation("auto-title", fmt.Sprintf("path %q has automatic title %q", "/"+s, title))
				}
			}
		}
		if strings.TrimSpace(s) != "" && !strings.HasPrefix(s, " ") && !strings.HasSuffix(s, " ") {
			batch = append(batch, s)
			if len(batch) == 40 {
				flush()
			}
		}
	})
	flush()
	// whole paths: the first segment is the first component that is neither empty nor '.', wherever it stands
	pn := 0
	enumerate(c19PathSymbols, t.Pick(8, 10), func(s string) {
		if shard == 0 {
			t.Count("paths_titled")
			want := "/" + firstSegment("/"+s)
			if got := catalog.VerifPathTagTitle("/" + s); got != want {
				t.Violation("auto-title", fmt.Sprintf("path %q has automatic title %q, its first segment is %q", "/"+s, got, want))
			}
		}
		// end to end for the paths with at least two skipped components before the first real one
		if strings.HasPrefix(s, "./.") || strings.HasPrefix(s, "//") || strings.HasPrefix(s, "./") && strings.Contains(s, "a/") {
			pn++
			if len(batch) < 25 {
				batch = append(batch, s+"/u"+fmt.Sprint(pn))
			}
			if len(batch) == 25 && pn%7 == 0 {
				flush()
			}
		}
	})
	flush()
	if shard == 0 {
		t.Add("distinct_auto_names", len(names))
	}
}

var c19PathSymbols = []string{"a", "bc", ".", "/"}

func c19EvalInjective(t *fw.T, c *fw.Case) {
	segs := strings.Split(c.Meta["segs"], "\x00")
	var sb strings.Builder
	sb.WriteString("JSIGHT 0.3\n")
	for _, s := range segs {
		sb.WriteString("GET " + quoteParam("/"+s+"/x") + "\n  200 any\n")
	}
	c.Docs[0] = run.Single([]byte(sb.String()))
	o := t.Exec(c.Docs[0])
	if o.Outcome != run.Accepted {
		t.Count("injective_batch_rejected")
		t.Sample("injective-batch-rejected", map[string]interface{}{"msg": o.Msg, "segs": segs})
		return
	}
	d, err := jsonx.Parse(o.JSON)
	if err != nil {
		return
	}
	in := d.Root.Get("interactions")
	seen := map[string]string{}
	for i := range in.Keys {
		v := in.Vals[i]
		path := v.Get("path").S()
		tl := v.Get("tags").Strings()
		t.Count("interactions_checked")
		if len(tl) != 1 {
			t.Violation("auto-tag-count", fmt.Sprintf("interaction %q has tags %v, expected exactly one automatic tag", in.Keys[i], tl))
			continue
		}
		seg := firstSegment(path)
		if prev, ok := seen[tl[0]]; ok && prev != seg {
			t.Violation("auto-name-collision-e2e", fmt.Sprintf("paths with first segments %q and %q share the tag %q", prev, seg, tl[0]))
		}
		seen[tl[0]] = seg
		if title := d.Root.Get("tags").Get(tl[0]).Get("title").S(); title != "/"+seg {
			t.Violation("auto-title-e2e", fmt.Sprintf("automatic tag of path %q has title %q", path, title))
		}
	}
	t.Distinct(fmt.Sprintf("e2e-batch %d names", len(seen)))
}

func firstSegment(path string) string {
	for _, p := range strings.Split(path, "/") {
		if p != "" && p != "." {
			return p
		}
	}
	return ""
}

// ---- precedence ----

type c19Method struct {
	proto   string // http | rpc
	verb    string // GET.. or rpc method name
	path    string
	own     []string // own Tags (nil: none)
	url     []string // enclosing URL's Tags (nil: none or not enclosed)
	hoisted bool
	pasted  bool
}

func c19GenDoc(r *xrand.Rand, idx int, tier string) *fw.Case {
	var sb strings.Builder
	sb.WriteString("JSIGHT 0.3\n")
	nt := r.Range(1, 6)
	type tagDecl struct{ name, ann string }
	var decls []tagDecl
	for i := 0; i < nt; i++ {
		d := tagDecl{name: []string{"@T", "@T1", "@T12", "@T123", "@T1234", "@T12345"}[i]} // each name is a prefix of the next ones
		if r.Chance(1, 5) { // a declared tag that has the name an automatic path tag gets
			d.name = []string{"@cats", "@dogs", "@a__b"}[r.Intn(3)]
			for _, prev := range decls {
				if prev.name == d.name {
					d.name = []string{"@T", "@T1", "@T12", "@T123", "@T1234", "@T12345"}[i]
				}
			}
		}
		if r.Bool() {
			d.ann = []string{"Title of %d", "Title   of  %d", "Title\tof %d ", "  Title of %d"}[r.Intn(4)]
			d.ann = fmt.Sprintf(d.ann, i)
		}
		decls = append(decls, d)
	}
	writeTags := func() {
		for _, d := range decls {
			sb.WriteString("TAG " + d.name)
			if d.ann != "" {
				if r.Chance(1, 3) {
					sb.WriteString(" /* " + d.ann + " */")
				} else {
					sb.WriteString(" // " + d.ann)
				}
			}
			sb.WriteString("\n")
		}
	}
	tagsFirst := r.Bool()
	if tagsFirst {
		writeTags()
	}
	pick := func() []string {
		if r.Chance(1, 4) { // many tags on one interaction: all the declared ones, in a random order
			var out []string
			for _, i := range r.Perm(len(decls)) {
				out = append(out, decls[i].name)
			}
			return out
		}
		k := r.Range(1, 2)
		var out []string
		for i := 0; i < k; i++ {
			out = append(out, decls[r.Intn(len(decls))].name)
		}
		if len(out) == 2 && out[0] == out[1] {
			out = out[:1]
		}
		return out
	}
	undeclared := r.Chance(1, 12)
	segs := []string{"cats", "dogs", "a_b", "x.y", "é", "cats"}
	verbs := []string{"GET", "POST", "PUT", "PATCH", "DELETE"}
	var methods []c19Method
	var macros strings.Builder
	nb := r.Range(1, 5)
	usedPaths := map[string]bool{}
	for b := 0; b < nb; b++ {
		seg := segs[r.Intn(len(segs))]
		path := fmt.Sprintf("/%s/b%d", seg, b)
		switch r.Intn(4) {
		case 0, 1: // URL block with http methods
			var utags []string
			sb.WriteString("URL " + path + "\n")
			tagsLater := ""
			if r.Bool() {
				utags = pick()
				if r.Chance(1, 3) {
					tagsLater = "  Tags " + strings.Join(utags, " ") + "\n" // written after the first method, which gets parentheses
				} else {
					sb.WriteString("  Tags " + strings.Join(utags, " ") + "\n")
				}
			}
			nm := r.Range(1, 3)
			perm := r.Perm(len(verbs))
			if tagsLater != "" {
				v := verbs[perm[nm]]
				sb.WriteString("  " + v + "\n  (\n    200 any\n  )\n" + tagsLater)
				methods = append(methods, c19Method{proto: "http", verb: v, path: path, url: utags})
			}
			for m := 0; m < nm; m++ {
				me := c19Method{proto: "http", verb: verbs[perm[m]], path: path, url: utags}
				switch {
				case r.Chance(1, 5): // path-bearing method: hoisted out of the URL
					me.path = fmt.Sprintf("/%s/h%d_%d", segs[r.Intn(len(segs))], b, m)
					me.hoisted = true
					me.url = nil
					sb.WriteString("  " + me.verb + " " + me.path + "\n")
				case r.Chance(1, 5): // method through PASTE
					me.pasted = true
					fmt.Fprintf(&macros, "MACRO @mac%d_%d\n(\n  %s\n", b, m, me.verb)
					if r.Bool() {
						me.own = pick()
						macros.WriteString("    Tags " + strings.Join(me.own, " ") + "\n")
					}
					macros.WriteString("    200 any\n)\n")
					fmt.Fprintf(&sb, "  PASTE @mac%d_%d\n", b, m)
					methods = append(methods, me)
					continue
				default:
					sb.WriteString("  " + me.verb + "\n")
				}
				if r.Chance(2, 5) {
					me.own = pick()
					if r.Chance(1, 3) {
						sb.WriteString("    Description\n      about it\n")
					}
					sb.WriteString("    Tags " + strings.Join(me.own, " ") + "\n")
				}
				sb.WriteString("    200 any\n")
				methods = append(methods, me)
				if me.hoisted {
					break // whatever follows would nest under the hoisted method, keep the block simple
				}
			}
		case 2: // JSON-RPC block
			var utags []string
			sb.WriteString("URL " + path + "\n  Protocol json-rpc-2.0\n")
			if r.Bool() {
				utags = pick()
				sb.WriteString("  Tags " + strings.Join(utags, " ") + "\n")
			}
			nm := r.Range(1, 3)
			for m := 0; m < nm; m++ {
				me := c19Method{proto: "rpc", verb: fmt.Sprintf("m%d", m), path: path, url: utags}
				sb.WriteString("  Method " + me.verb + "\n")
				if r.Chance(2, 5) {
					me.own = pick()
					if r.Chance(1, 3) {
						sb.WriteString("    Description\n      about it\n")
					}
					sb.WriteString("    Tags " + strings.Join(me.own, " ") + "\n")
				}
				sb.WriteString("    Params\n    {}\n")
				methods = append(methods, me)
			}
		default: // stand-alone path-bearing method
			me := c19Method{proto: "http", verb: verbs[r.Intn(len(verbs))], path: path}
			sb.WriteString(me.verb + " " + path + "\n")
			if r.Chance(2, 5) {
				me.own = pick()
				if r.Chance(1, 3) {
					sb.WriteString("  Description\n    about it\n")
				}
				sb.WriteString("  Tags " + strings.Join(me.own, " ") + "\n")
			}
			sb.WriteString("  200 any\n")
			methods = append(methods, me)
		}
		usedPaths[path] = true
	}
	if r.Chance(1, 10) { // the root path
		methods = append(methods, c19Method{proto: "http", verb: "GET", path: "/"})
		sb.WriteString("GET /\n  200 any\n")
	}
	if undeclared {
		// a name that no TAG declares - also one that an automatic tag of an earlier interaction already has
		switch r.Intn(4) {
		case 0:
			sb.WriteString("GET /undeclared/z\n  Tags @NoSuchTag\n  200 any\n")
		case 1:
			sb.WriteString("GET /zzautoseg/one\n  200 any\nGET /undeclared/z\n  Tags @zzautoseg\n  200 any\n")
		case 2:
			sb.WriteString("GET /zzautoseg/one\n  200 any\nURL /undeclared/y\n  POST\n    Tags @zzautoseg\n    Request any\n    200 any\n")
		default:
			sb.WriteString("GET /zzautoseg/one\n  200 any\nURL /undeclared/rpc\n  Protocol json-rpc-2.0\n  Method m\n    Tags @zzautoseg\n    Params\n    {}\n")
		}
	}
	sb.WriteString(macros.String())
	if !tagsFirst {
		writeTags()
	}
	text := sb.String()
	switch r.Intn(4) {
	case 0:
		text = strings.ReplaceAll(text, "\n", "\r\n")
	case 1:
		text = strings.ReplaceAll(text, "\n", "\r")
	}
	c := oneDocCase([]byte(text), "", "tags document")
	c.Meta = map[string]string{}
	var enc []string
	for _, m := range methods {
		enc = append(enc, strings.Join([]string{m.proto, m.verb, m.path, strings.Join(m.own, ","), strings.Join(m.url, ","), fmt.Sprint(m.hoisted), fmt.Sprint(m.pasted)}, "|"))
	}
	c.Meta["methods"] = strings.Join(enc, "\n")
	var dd []string
	for _, d := range decls {
		dd = append(dd, d.name+"|"+strings.Join(strings.Fields(d.ann), " "))
	}
	c.Meta["decls"] = strings.Join(dd, "\n")
	c.Meta["undeclared"] = fmt.Sprint(undeclared)
	return c
}

func c19EvalDoc(t *fw.T, c *fw.Case) {
	d := c.Docs[0]
	o := t.Exec(d)
	input := fw.Short(d.Files[d.Root], 700)
	if c.Meta["undeclared"] == "true" {
		t.Count("undeclared_tag_documents")
		// (the statement asks for a rejection, not for a wording)
		if o.Outcome != run.Rejected || run.RuntimeFaultText(o.ErrText) {
			t.Violation("undeclared-tag-accepted", fmt.Sprintf("a Tags directive names an undeclared tag, expected a rejection, got %s; input %s", describe(o), input))
		}
		return
	}
	if o.Outcome != run.Accepted {
		t.Violation("valid-tags-document-rejected:"+run.MsgTemplate(o.Msg), fmt.Sprintf("generated document rejected: %s; input %s", describe(o), input))
		return
	}
	doc, err := jsonx.Parse(o.JSON)
	if err != nil {
		return
	}
	tags := doc.Root.Get("tags")
	inter := doc.Root.Get("interactions")
	// declared titles
	declared := map[string]bool{}
	for _, l := range strings.Split(c.Meta["decls"], "\n") {
		p := strings.SplitN(l, "|", 2)
		declared[p[0]] = true
		want := p[1]
		if want == "" {
			want = p[0]
		}
		if got := tags.Get(p[0]).Get("title").S(); got != want {
			t.Violation("declared-title", fmt.Sprintf("declared tag %s has title %q, expected %q; input %s", p[0], got, want, input))
		}
	}
	autoBySeg := map[string]string{}
	autoNames := map[string]string{}
	pattern := ""
	for _, l := range strings.Split(c.Meta["methods"], "\n") {
		f := strings.Split(l, "|")
		proto, verb, path := f[0], f[1], f[2]
		var own, url []string
		if f[3] != "" {
			own = strings.Split(f[3], ",")
		}
		if f[4] != "" {
			url = strings.Split(f[4], ",")
		}
		key := "http " + verb + " " + path
		if proto == "rpc" {
			key = "json-rpc-2.0 " + verb + " " + path
		}
		iv := inter.Get(key)
		if iv == nil {
			t.Violation("interaction-missing", fmt.Sprintf("interaction %q is not in the catalog; input %s", key, input))
			continue
		}
		t.Count("interactions_checked")
		got := iv.Get("tags").Strings()
		if len(got) == 0 {
			t.Violation("no-tag", fmt.Sprintf("interaction %q has no tag; input %s", key, input))
			continue
		}
		switch {
		case own != nil:
			pattern += "o"
			if !sameStrings(got, own) {
				t.Violation("own-tags-not-used", fmt.Sprintf("interaction %q has its own Tags %v but carries %v; input %s", key, own, got, input))
			}
		case url != nil:
			pattern += "u"
			if !sameStrings(got, url) {
				t.Violation("url-tags-not-used", fmt.Sprintf("interaction %q has no own Tags, its URL has %v, but it carries %v; input %s", key, url, got, input))
			}
		default:
			pattern += "a"
			seg := firstSegment(path)
			if len(got) != 1 {
				t.Violation("auto-tag-count", fmt.Sprintf("interaction %q has no Tags anywhere but carries %v; input %s", key, got, input))
				continue
			}
			if declared[got[0]] && got[0] == catalog.VerifTagName("/"+seg) {
				// a declared tag has the very name the automatic tag of this segment gets: the two cannot be told apart
				// by name (the declared title is checked above); nothing more to say about this interaction
				t.Count("auto_tag_coincides_with_declared")
				continue
			}
			if declared[got[0]] {
				t.Violation("auto-tag-is-declared", fmt.Sprintf("interaction %q has no Tags anywhere but carries the declared tag %v; input %s", key, got, input))
				continue
			}
			if prev, ok := autoBySeg[seg]; ok && prev != got[0] {
				t.Violation("auto-tag-not-shared", fmt.Sprintf("first segment %q has two automatic tags %q and %q; input %s", seg, prev, got[0], input))
			}
			autoBySeg[seg] = got[0]
			if prev, ok := autoNames[got[0]]; ok && prev != seg {
				t.Violation("auto-name-collision-e2e", fmt.Sprintf("first segments %q and %q share the automatic tag %q; input %s", prev, seg, got[0], input))
			}
			autoNames[got[0]] = seg
			wantTitle := "/" + seg
			if title := tags.Get(got[0]).Get("title").S(); title != wantTitle {
				t.Violation("auto-title-e2e", fmt.Sprintf("automatic tag %q of path %q has title %q; input %s", got[0], path, title, input))
			}
		}
	}
	t.Distinct(pattern)
	t.Sample("precedence", map[string]interface{}{"input": input, "pattern": pattern})
}

func sameStrings(a, b []string) bool {
	if len(a) != len(b) {
		return false
	}
	for i := range a {
		if a[i] != b[i] {
			return false
		}
	}
	return true
}
