// Package checks holds one file per property: workload families and oracles.
package checks

import (
	"fmt"
	"os"
	"path/filepath"
	"regexp"
	"strings"

	"verifharness/internal/corpus"
	"verifharness/internal/fw"
	"verifharness/internal/run"
	"verifharness/internal/xrand"
	"runtime"
	"syscall"
)

func tierN(tier string, quick, thorough int) int {
	if tier == "thorough" {
		return thorough
	}
	return quick
}

func constN(quick, thorough int) func(string) int {
	return func(tier string) int { return tierN(tier, quick, thorough) }
}

// memDoc is a single in-memory file; if dir != "" INCLUDEs resolve against that real directory.
func memDoc(content []byte, dir string) run.Doc {
	d := run.Single(content)
	d.BaseDir = dir
	return d
}

func oneDocCase(content []byte, dir string, note string) *fw.Case {
	return &fw.Case{Docs: []run.Doc{memDoc(content, dir)}, Note: note}
}

// totality applies the C01 oracle to one observation. prop-specific callers pass a prefix for signatures.
// It returns true when the observation is a clean accepted/rejected/new_error.
func totality(t *fw.T, o *run.Obs) bool {
	ok := true
	switch o.Outcome {
	case run.Panic:
		t.Violation("panic:"+run.NormMsg(firstLine(o.PanicVal))+"@"+o.PanicFrame,
			fmt.Sprintf("the library panicked: %s\n%s", o.PanicVal, o.PanicStack))
		ok = false
	case run.Budget:
		t.Violation("budget:"+run.NormMsg(o.PanicVal)+"@"+o.PanicFrame,
			fmt.Sprintf("logical-step budget exceeded (unbounded work): %s\n%s", o.PanicVal, o.PanicStack))
		ok = false
	case run.NewError:
		if run.RuntimeFaultText(o.NewErr) {
			t.Violation("swallowed-newjapi:"+run.NormMsg(o.NewErr), "NewJapi reported a Go runtime fault as an error: "+o.NewErr)
			ok = false
		}
	case run.Rejected:
		if run.RuntimeFaultText(o.ErrText) && !hasRuntimeRec(o) {
			t.Violation("swallowed:"+run.NormMsg(firstLine(o.Msg)),
				fmt.Sprintf("a Go runtime fault is reported as a diagnostic: %q (index %d)", o.ErrText, o.Index))
			ok = false
		}
	case run.Accepted:
		if o.JSONErr != "" {
			t.Violation("tojson-error:"+run.NormMsg(lastSegment(o.JSONErr)), "accepted project cannot be serialised: "+shortenMid(o.JSONErr))
			ok = false
		}
	}
	surfaced := (o.Outcome == run.Rejected && run.RuntimeFaultText(o.ErrText)) ||
		(o.Outcome == run.NewError && run.RuntimeFaultText(o.NewErr))
	for _, ev := range o.Recovered {
		if !ev.IsRuntime {
			continue
		}
		if !surfaced {
			t.Count("runtime_fault_recovered_but_not_surfaced")
			continue
		}
		t.Violation("recovered-runtime:"+run.NormMsg(ev.Val)+"@"+ev.Frame,
			fmt.Sprintf("a Go runtime fault was swallowed by recover() at %s and reported as the diagnostic %q: %s (raised in %s)",
				ev.Site, o.ErrText+o.NewErr, ev.Val, ev.Frame))
		ok = false
	}
	return ok
}

func hasRuntimeRec(o *run.Obs) bool {
	for _, ev := range o.Recovered {
		if ev.IsRuntime {
			return true
		}
	}
	return false
}

func firstLine(s string) string {
	if i := strings.IndexByte(s, '\n'); i >= 0 {
		return s[:i]
	}
	return s
}

func outcomeClass(o *run.Obs) string {
	switch o.Outcome {
	case run.Rejected:
		return "rejected:" + run.MsgTemplate(o.Msg)
	case run.NewError:
		return "new_error:" + run.MsgTemplate(o.NewErr)
	}
	return o.Outcome
}

func pickCorpus(r *xrand.Rand, max int) corpus.Entry {
	ee := corpus.Small(max)
	return ee[r.Intn(len(ee))]
}

// lastSegment returns the innermost error of a chain of "…: …: msg".
func lastSegment(s string) string {
	const mark = "json: error calling MarshalJSON for type "
	i := strings.LastIndex(s, mark)
	if i < 0 {
		return s
	}
	rest := s[i+len(mark):]
	if j := strings.Index(rest, ": "); j >= 0 {
		rest = rest[j+2:]
	}
	return depthCharRe.ReplaceAllString(rest, "invalid character 'X' exceeded max depth")
}

var depthCharRe = regexp.MustCompile(`invalid character '.' exceeded max depth`)

func shortenMid(s string) string {
	if len(s) <= 500 {
		return s
	}
	return s[:250] + " … " + s[len(s)-250:]
}

// aux: jsmon aux exec <root file> [repetitions] — runs a project from disk and prints what was observed (for triage).
func auxExec(args []string) int {
	if len(args) < 1 {
		return 2
	}
	n := 1
	if len(args) > 1 {
		fmt.Sscan(args[1], &n)
	}
	seen := map[string]int{}
	var order []string
	files := map[string][]byte{}
	dir := filepath.Dir(args[0])
	_ = filepath.Walk(dir, func(p string, info os.FileInfo, err error) error {
		if err == nil && !info.IsDir() {
			if b, e := os.ReadFile(p); e == nil {
				rel, _ := filepath.Rel(dir, p)
				files[rel] = b
			}
		}
		return nil
	})
	for i := 0; i < n; i++ {
		d := run.Doc{Files: files, Root: filepath.Base(args[0])}
		o := run.Exec(d, false)
		s := describe(o)
		if o.Outcome == run.Accepted && n == 1 {
			s += "\n" + string(o.JSON)
		}
		if seen[s] == 0 {
			order = append(order, s)
		}
		seen[s]++
	}
	for _, s := range order {
		fmt.Printf("%dx %s\n", seen[s], s)
	}
	return 0
}

func init() { fw.RegisterAux("exec", auxExec) }

// aux: jsmon aux lex <file> — prints the lexemes of the scanner (for triage).
func auxLex(args []string) int {
	if len(args) < 1 {
		return 2
	}
	b, err := os.ReadFile(args[0])
	if err != nil {
		fmt.Println(err)
		return 2
	}
	lex, errText, pv, _ := scanAll(b)
	for _, l := range lex {
		end := l.end + 1
		if end > len(b) {
			end = len(b)
		}
		v := ""
		if l.begin <= end && l.begin >= 0 {
			v = string(b[l.begin:end])
		}
		fmt.Printf("%-14s [%d,%d] %q\n", l.typ, l.begin, l.end, v)
	}
	fmt.Println("error:", errText, "panic:", pv)
	return 0
}

func init() { fw.RegisterAux("lex", auxLex) }

// aux prefixes <file> <from> <to> <step>: every prefix of the file in that range, one after another in this process,
// with the user CPU time of each (triage helper for the CPU cap)
func init() {
	fw.RegisterAux("prefixes", func(args []string) int {
		if len(args) < 4 {
			return 2
		}
		b, err := os.ReadFile(args[0])
		if err != nil {
			return 2
		}
		var from, to, step int
		fmt.Sscan(args[1], &from)
		fmt.Sscan(args[2], &to)
		fmt.Sscan(args[3], &step)
		cpu := func() float64 {
			var ru syscall.Rusage
			_ = syscall.Getrusage(syscall.RUSAGE_SELF, &ru)
			return float64(ru.Utime.Sec) + float64(ru.Utime.Usec)/1e6
		}
		worst := 0.0
		for l := from; l < to && l < len(b); l += step {
			c0 := cpu()
			o := run.Exec(run.Single(b[:l]), false)
			d := cpu() - c0
			if d > worst {
				worst = d
			}
			if d > 5 {
				var ms runtime.MemStats
				runtime.ReadMemStats(&ms)
				fmt.Printf("prefix %d: %.1f CPU s, %s, heap %d MiB, gc cycles %d\n", l, d, o.Outcome, ms.HeapAlloc>>20, ms.NumGC)
			}
		}
		fmt.Printf("worst %.1f CPU s\n", worst)
		return 0
	})
}
