package checks

import (
	"errors"
	"encoding/json"
	"fmt"
	"os"
	"os/exec"
	"path/filepath"
	"runtime"
	"sort"
	"strconv"
	"strings"
	"sync"
	"sync/atomic"
	"time"

	"github.com/anishathalye/porcupine"

	"github.com/jsightapi/jsight-schema-go-library/fs"

	"github.com/jsightapi/jsight-api-go-library/catalog"
	"github.com/jsightapi/jsight-api-go-library/core"
	"github.com/jsightapi/jsight-api-go-library/directive"
	"github.com/jsightapi/jsight-api-go-library/kit"

	"verifharness/internal/corpus"
	"verifharness/internal/fw"
	"verifharness/internal/jsonx"
	"verifharness/internal/run"
	"verifharness/internal/xrand"
)

func init() {
	fw.Register(&fw.Check{
		ID:    "C16",
		Level: "exploration",
		Rule: "all workers are built with the Go race detector (a report ends the worker and is attributed to the running case). " +
			"W1 'parallel': 16 goroutines each create/validate/serialise different corpus and generated projects at once, every result compared with the result obtained alone; " +
			"W2 'shared': one validated catalog is serialised (ToJson, ToJsonIndent), titled and read through its collections (Each, Get, Find, Len, Has, MarshalJSON) from 16 goroutines at once, every output compared with the solo output; " +
			"W3 'firstuse': fresh processes in which 16 goroutines are released by a barrier into the very first NewDirectiveType / parse / regex body / annotation of the process; " +
			"W4 'history': for each generated collection type (Interactions, Servers, Tags, UserTypes, UserRules, Directives, StringSet) 3-4 clients issue 5-8 operations with unique values, random yields between calls, GOMAXPROCS in {2,4,16}; " +
			"call/return stamps come from one atomic counter at the client boundary; each history is checked with porcupine against a sequential ordered-map model (timeout => inconclusive) and the quiescent final state is checked for lost updates and repeated keys. " +
			"distinct_nontrivial = histories with genuinely overlapping operations plus distinct final key orders seen",
		Assumptions: []string{
			"'all interleavings' is sampled: the evidence reports how many histories had overlapping operations",
			"UserSchemas is declared unsafe by the repository and is not exercised concurrently",
			"the race detector only sees races the schedule produces; repetition and GOMAXPROCS variation widen the sample",
		},
		NeedsRace: true,
		Families: []fw.Family{
			{Name: "parallel", N: constN(60, 1500), Gen: c16GenParallel, Eval: c16EvalParallel},
			{Name: "rules-builder", N: constN(400, 10000), Gen: func(r *xrand.Rand, idx int, tier string) *fw.Case {
				return &fw.Case{Ints: map[string]int{"procs": []int{2, 4, 16}[r.Intn(3)]}, Docs: []run.Doc{{}}}
			}, Eval: c16EvalRulesBuilder},
			{Name: "shared", N: constN(60, 1500), Gen: c16GenShared, Eval: c16EvalShared},
			{Name: "history", N: constN(7*1000, 7*30000), Gen: c16GenHistory, Eval: c16EvalHistory},
		},
		Floors: map[string]int64{"histories_checked": 3000, "overlapping_histories": 1000, "parallel_results_compared": 2000},
		Post:   c16Post,
	})
	fw.RegisterAux("c16first", c16AuxFirstUse)
}

// ---- W1 ----

func c16Docs(r *xrand.Rand, n int) []run.Doc {
	ee := corpus.Small(5000)
	var out []run.Doc
	for i := 0; i < n; i++ {
		if r.Chance(1, 8) {
			// quoted parameters with escapes, a quoted INCLUDE-free project: whatever the library does to a parameter it
			// must do to its own copy, the bytes of the project may be shared between parses
			n := r.Intn(1000)
			var sb strings.Builder
			fmt.Fprintf(&sb, "JSIGHT 0.3\nINFO\n  Title \"Pets \\\"API\\\" \\\\v%d\"\n  Version \"1.\\\\%d\"\nSERVER @s\n  BaseUrl \"https://a/\\\\%d\"\n", n, n, n)
			// long enough for the parses to overlap: a few hundred methods with escaped quoted paths
			for k := 0; k < 300; k++ {
				fmt.Fprintf(&sb, "GET \"/pets/\\\"q%d_%d\\\"/\\\\x\"\n  200 any\n", n, k)
			}
			out = append(out, run.Single([]byte(sb.String())))
			continue
		}
		if r.Chance(2, 3) {
			e := ee[r.Intn(len(ee))]
			d := memDoc(e.Content, e.Dir)
			d.FixedSeed = r.Bool()
			out = append(out, d)
		} else {
			c := c03GenMultiFault(r.Fork(), r.Intn(1<<20), "quick")
			out = append(out, c.Docs[0])
		}
	}
	return out
}

func c16GenParallel(r *xrand.Rand, idx int, tier string) *fw.Case {
	return &fw.Case{Docs: c16Docs(r, 16), Note: "16 projects processed at once"}
}

func c16EvalParallel(t *fw.T, c *fw.Case) {
	solo := make([]string, len(c.Docs))
	pristine := make([][]byte, len(c.Docs))
	for i, d := range c.Docs {
		pristine[i] = append([]byte{}, d.Files[d.Root]...)
		solo[i] = fingerprint(run.ExecConcurrent(d))
	}
	rounds := 4
	var wg sync.WaitGroup
	bad := make([]string, len(c.Docs))
	badDoc := make([]int, len(c.Docs))
	start := make(chan struct{})
	for i := range c.Docs {
		wg.Add(1)
		go func(i int) {
			defer wg.Done()
			<-start
			for k := 0; k < rounds; k++ {
				o := run.ExecConcurrent(c.Docs[(i+k)%len(c.Docs)])
				if f := fingerprint(o); f != solo[(i+k)%len(c.Docs)] {
					bad[i] = fmt.Sprintf("project %d: concurrent %s", (i+k)%len(c.Docs), describe(o))
					badDoc[i] = (i + k) % len(c.Docs)
				}
			}
		}(i)
	}
	close(start)
	wg.Wait()
	// one more project for the same-bytes rounds in every case: escaped quoted parameters throughout (whatever the library
	// does to a parameter it must do to a copy of its own), long enough for the parses to overlap
	extra := 3
	for e := 0; e < extra; e++ {
		var sb strings.Builder
		fmt.Fprintf(&sb, "JSIGHT 0.3\nINFO\n  Title \"Pets \\\"API\\\" \\\\v%d\"\n", c.Index*10+e)
		for k := 0; k < 300; k++ {
			fmt.Fprintf(&sb, "GET \"/pets/\\\"q%d_%d_%d\\\"/\\\\x\"\n  200 any\n", c.Index, e, k)
		}
		d := run.Single([]byte(sb.String()))
		c.Docs = append(c.Docs, d)
		pristine = append(pristine, append([]byte{}, d.Files[d.Root]...))
		solo = append(solo, fingerprint(run.ExecConcurrent(run.Single(append([]byte{}, d.Files[d.Root]...)))))
		bad = append(bad, "")
		badDoc = append(badDoc, 0)
	}
	// then every goroutine parses the very same projects (the same bytes) at the same moment
	for _, j := range []int{c.Index % (len(c.Docs) - extra), (c.Index + 5) % (len(c.Docs) - extra), len(c.Docs) - 1, len(c.Docs) - 2, len(c.Docs) - 3} {
		// a pristine copy of the bytes, which no parse has seen yet, shared by all goroutines
		shared := c.Docs[j]
		shared.Files = map[string][]byte{}
		for name, content := range c.Docs[j].Files {
			shared.Files[name] = append([]byte{}, content...)
		}
		if pristine[j] != nil {
			shared.Files[shared.Root] = append([]byte{}, pristine[j]...)
		}
		var wg2 sync.WaitGroup
		start2 := make(chan struct{})
		for i := range c.Docs {
			wg2.Add(1)
			go func(i int) {
				defer wg2.Done()
				<-start2
				o := run.ExecConcurrent(shared)
				if f := fingerprint(o); f != solo[j] && bad[i] == "" {
					bad[i] = fmt.Sprintf("project %d parsed by 16 goroutines at once: %s", j, describe(o))
					badDoc[i] = j
				}
			}(i)
		}
		close(start2)
		wg2.Wait()
		t.Add("parallel_results_compared", len(c.Docs))
		t.Count("same_bytes_rounds")
	}
	t.Add("parallel_results_compared", len(c.Docs)*rounds)
	for i, b := range bad {
		if b != "" {
			// a project whose result varies even alone is C03's business (nondeterminism), not interference
			varies := false
			for k := 0; k < 12 && !varies; k++ {
				if fingerprint(run.ExecConcurrent(c.Docs[badDoc[i]])) != solo[badDoc[i]] {
					varies = true
				}
			}
			if varies {
				t.Count("solo_nondeterministic_project_skipped")
				continue
			}
			t.Violation("parallel-result-differs", "a result obtained while other projects are processed differs from the result obtained alone: "+b)
			break
		}
	}
	t.Distinct("parallel")
}

// ---- W2 ----

func c16GenShared(r *xrand.Rand, idx int, tier string) *fw.Case {
	var pos []corpus.Entry
	for _, e := range corpus.Small(8000) {
		if e.HasJSON {
			pos = append(pos, e)
		}
	}
	e := pos[r.Intn(len(pos))]
	d := memDoc(e.Content, e.Dir)
	d.FixedSeed = true
	return &fw.Case{Docs: []run.Doc{d}, Note: "shared catalog " + e.Path}
}

func c16EvalShared(t *fw.T, c *fw.Case) {
	d := c.Docs[0]
	j := kit.NewJApiFromFile(fs.NewFile(filepath.Join(d.BaseDir, d.Root), d.Files[d.Root]), core.WithFixedSeedForRegex())
	if je := j.ValidateJAPI(); je != nil {
		t.Count("shared_not_accepted")
		return
	}
	cat := j.VerifCore().Catalog()
	read := func() string {
		var sb strings.Builder
		b, err := j.ToJson()
		sb.Write(b)
		fmt.Fprint(&sb, err)
		b, err = j.ToJsonIndent()
		sb.Write(b)
		fmt.Fprint(&sb, err, j.Title())
		_ = cat.Interactions.Each(func(k catalog.InteractionID, v catalog.Interaction) error {
			sb.WriteString(k.String() + string(v.Path()))
			if _, ok := cat.Interactions.Get(k); !ok {
				sb.WriteString("!missing")
			}
			return nil
		})
		_ = cat.Tags.EachReverse(func(k catalog.TagName, v *catalog.Tag) error {
			sb.WriteString(string(k) + v.Title)
			return nil
		})
		_ = cat.UserTypes.Each(func(k string, v *catalog.UserType) error {
			sb.WriteString(k + v.Annotation + fmt.Sprint(cat.UserTypes.Has(k)))
			if v.Schema.UsedUserTypes != nil {
				sb.WriteString(strings.Join(v.Schema.UsedUserTypes.Data(), ","))
			}
			return nil
		})
		cat.UserEnums.EachSafe(func(k string, v *catalog.UserRule) { sb.WriteString(k) })
		if it, ok := cat.Servers.Find(func(k string, v *catalog.Server) bool { return true }); ok {
			sb.WriteString(it.Key)
		}
		fmt.Fprint(&sb, cat.Interactions.Len(), cat.Tags.Len(), cat.Servers.Len(), cat.UserTypes.Len(), cat.UserEnums.Len())
		mb, _ := cat.Interactions.MarshalJSON()
		sb.Write(mb)
		return sb.String()
	}
	solo := read()
	var wg sync.WaitGroup
	var diff atomic.Int32
	start := make(chan struct{})
	for g := 0; g < 16; g++ {
		wg.Add(1)
		go func() {
			defer wg.Done()
			<-start
			for k := 0; k < 3; k++ {
				if read() != solo {
					diff.Add(1)
				}
			}
		}()
	}
	close(start)
	wg.Wait()
	t.Add("shared_reads_compared", 48)
	if diff.Load() != 0 {
		t.Violation("shared-read-differs", fmt.Sprintf("%d of 48 concurrent reads of one validated catalog differ from the solo read; input %s", diff.Load(), fw.Short(d.Files[d.Root], 300)))
	}
	t.Distinct("shared")
}

// ---- W4: collection histories ----

// omap adapts one generated collection type to string keys/values.
type omap struct {
	name     string
	set      func(k, v string)
	setTop   func(k, v string)
	update   func(k, suffix string)
	get      func(k string) (string, bool)
	has      func(k string) bool
	length   func() int
	each     func() string
	eachErr  func() string // Each with a callback that returns an error at the first entry: the first key visited
	eachRev  func() string
	find     func(k string) (string, bool)
	mapAll   func(suffix string)
	marshal  func() (string, error)
	isSet    bool
	add      func(v string)
	data     func() string
	valueKey string // JSON key that carries the value in MarshalJSON output
}

var errStopEach = errors.New("stop")

type testIID struct{ s string }

func (i testIID) Protocol() catalog.Protocol   { return catalog.HTTP }
func (i testIID) Path() catalog.Path           { return catalog.Path("/" + i.s) }
func (i testIID) String() string               { return i.s }
func (i testIID) MarshalText() ([]byte, error) { return []byte(i.s), nil }

func kv(k, v string) string { return k + "=" + v }

var c16Types = []string{"Interactions", "Servers", "Tags", "UserTypes", "UserRules", "Directives", "StringSet"}

func newOmap(kind string) *omap {
	join := func(parts []string) string { return strings.Join(parts, ";") }
	switch kind {
	case "Servers":
		m := &catalog.Servers{}
		mk := func(v string) *catalog.Server { return &catalog.Server{Annotation: v} }
		return &omap{name: kind, valueKey: "annotation",
			set:    func(k, v string) { m.Set(k, mk(v)) },
			setTop: func(k, v string) { m.SetToTop(k, mk(v)) },
			update: func(k, s string) { m.Update(k, func(v *catalog.Server) *catalog.Server { return mk(v.Annotation + s) }) },
			get: func(k string) (string, bool) {
				v, ok := m.Get(k)
				if !ok {
					return "", false
				}
				return v.Annotation, true
			},
			has:    m.Has,
			length: m.Len,
			each: func() string {
				var p []string
				_ = m.Each(func(k string, v *catalog.Server) error { p = append(p, kv(k, v.Annotation)); return nil })
				return join(p)
			},
			eachErr: func() string {
				first := ""
				_ = m.Each(func(k string, v *catalog.Server) error { first = k; return errStopEach })
				return first
			},
			eachRev: func() string {
				var p []string
				_ = m.EachReverse(func(k string, v *catalog.Server) error { p = append(p, kv(k, v.Annotation)); return nil })
				return join(p)
			},
			find: func(k string) (string, bool) {
				it, ok := m.Find(func(kk string, v *catalog.Server) bool { return kk == k })
				if !ok {
					return "", false
				}
				return it.Value.Annotation, true
			},
			mapAll: func(s string) {
				_ = m.Map(func(k string, v *catalog.Server) (*catalog.Server, error) { return mk(v.Annotation + s), nil })
			},
			marshal: func() (string, error) { b, err := m.MarshalJSON(); return string(b), err },
		}
	case "Tags":
		m := &catalog.Tags{}
		mk := func(v string) *catalog.Tag { return catalog.NewTag("@n", v) }
		return &omap{name: kind, valueKey: "title",
			set:    func(k, v string) { m.Set(catalog.TagName(k), mk(v)) },
			setTop: func(k, v string) { m.SetToTop(catalog.TagName(k), mk(v)) },
			update: func(k, s string) {
				m.Update(catalog.TagName(k), func(v *catalog.Tag) *catalog.Tag { return mk(v.Title + s) })
			},
			get: func(k string) (string, bool) {
				v, ok := m.Get(catalog.TagName(k))
				if !ok {
					return "", false
				}
				return v.Title, true
			},
			has:    func(k string) bool { return m.Has(catalog.TagName(k)) },
			length: m.Len,
			each: func() string {
				var p []string
				_ = m.Each(func(k catalog.TagName, v *catalog.Tag) error { p = append(p, kv(string(k), v.Title)); return nil })
				return join(p)
			},
			eachErr: func() string {
				first := ""
				_ = m.Each(func(k catalog.TagName, v *catalog.Tag) error { first = string(k); return errStopEach })
				return first
			},
			eachRev: func() string {
				var p []string
				_ = m.EachReverse(func(k catalog.TagName, v *catalog.Tag) error { p = append(p, kv(string(k), v.Title)); return nil })
				return join(p)
			},
			find: func(k string) (string, bool) {
				it, ok := m.Find(func(kk catalog.TagName, v *catalog.Tag) bool { return string(kk) == k })
				if !ok {
					return "", false
				}
				return it.Value.Title, true
			},
			mapAll: func(s string) {
				_ = m.Map(func(k catalog.TagName, v *catalog.Tag) (*catalog.Tag, error) { return mk(v.Title + s), nil })
			},
			marshal: func() (string, error) { b, err := m.MarshalJSON(); return string(b), err },
		}
	case "UserTypes":
		m := &catalog.UserTypes{}
		mk := func(v string) *catalog.UserType {
			return &catalog.UserType{Annotation: v, Schema: catalog.NewSchema("any")}
		}
		return &omap{name: kind, valueKey: "annotation",
			set:    func(k, v string) { m.Set(k, mk(v)) },
			setTop: func(k, v string) { m.SetToTop(k, mk(v)) },
			update: func(k, s string) {
				m.Update(k, func(v *catalog.UserType) *catalog.UserType { return mk(v.Annotation + s) })
			},
			get: func(k string) (string, bool) {
				v, ok := m.Get(k)
				if !ok {
					return "", false
				}
				return v.Annotation, true
			},
			has:    m.Has,
			length: m.Len,
			each: func() string {
				var p []string
				_ = m.Each(func(k string, v *catalog.UserType) error { p = append(p, kv(k, v.Annotation)); return nil })
				return join(p)
			},
			eachErr: func() string {
				first := ""
				_ = m.Each(func(k string, v *catalog.UserType) error { first = k; return errStopEach })
				return first
			},
			eachRev: func() string {
				var p []string
				_ = m.EachReverse(func(k string, v *catalog.UserType) error { p = append(p, kv(k, v.Annotation)); return nil })
				return join(p)
			},
			find: func(k string) (string, bool) {
				it, ok := m.Find(func(kk string, v *catalog.UserType) bool { return kk == k })
				if !ok {
					return "", false
				}
				return it.Value.Annotation, true
			},
			mapAll: func(s string) {
				_ = m.Map(func(k string, v *catalog.UserType) (*catalog.UserType, error) { return mk(v.Annotation + s), nil })
			},
			marshal: func() (string, error) { b, err := m.MarshalJSON(); return string(b), err },
		}
	case "UserRules":
		m := &catalog.UserRules{}
		mk := func(v string) *catalog.UserRule {
			return &catalog.UserRule{Annotation: v, Value: catalog.Rule{TokenType: catalog.RuleTokenTypeArray}}
		}
		return &omap{name: kind, valueKey: "annotation",
			set:    func(k, v string) { m.Set(k, mk(v)) },
			setTop: func(k, v string) { m.SetToTop(k, mk(v)) },
			update: func(k, s string) {
				m.Update(k, func(v *catalog.UserRule) *catalog.UserRule { return mk(v.Annotation + s) })
			},
			get: func(k string) (string, bool) {
				v, ok := m.Get(k)
				if !ok {
					return "", false
				}
				return v.Annotation, true
			},
			has:    m.Has,
			length: m.Len,
			each: func() string {
				var p []string
				_ = m.Each(func(k string, v *catalog.UserRule) error { p = append(p, kv(k, v.Annotation)); return nil })
				return join(p)
			},
			eachErr: func() string {
				first := ""
				_ = m.Each(func(k string, v *catalog.UserRule) error { first = k; return errStopEach })
				return first
			},
			eachRev: func() string {
				var p []string
				_ = m.EachReverse(func(k string, v *catalog.UserRule) error { p = append(p, kv(k, v.Annotation)); return nil })
				return join(p)
			},
			find: func(k string) (string, bool) {
				it, ok := m.Find(func(kk string, v *catalog.UserRule) bool { return kk == k })
				if !ok {
					return "", false
				}
				return it.Value.Annotation, true
			},
			mapAll: func(s string) {
				_ = m.Map(func(k string, v *catalog.UserRule) (*catalog.UserRule, error) { return mk(v.Annotation + s), nil })
			},
			marshal: func() (string, error) { b, err := m.MarshalJSON(); return string(b), err },
		}
	case "Directives":
		m := &directive.Directives{}
		mk := func(v string) *directive.Directive {
			d := directive.New(directive.Type, directive.Coords{})
			d.Annotation = v
			return d
		}
		return &omap{name: kind, valueKey: "Annotation",
			set:    func(k, v string) { m.Set(k, mk(v)) },
			setTop: func(k, v string) { m.SetToTop(k, mk(v)) },
			update: func(k, s string) {
				m.Update(k, func(v *directive.Directive) *directive.Directive { return mk(v.Annotation + s) })
			},
			get: func(k string) (string, bool) {
				v, ok := m.Get(k)
				if !ok {
					return "", false
				}
				return v.Annotation, true
			},
			has:    m.Has,
			length: m.Len,
			each: func() string {
				var p []string
				_ = m.Each(func(k string, v *directive.Directive) error { p = append(p, kv(k, v.Annotation)); return nil })
				return join(p)
			},
			eachErr: func() string {
				first := ""
				_ = m.Each(func(k string, v *directive.Directive) error { first = k; return errStopEach })
				return first
			},
			eachRev: func() string {
				var p []string
				_ = m.EachReverse(func(k string, v *directive.Directive) error { p = append(p, kv(k, v.Annotation)); return nil })
				return join(p)
			},
			find: func(k string) (string, bool) {
				it, ok := m.Find(func(kk string, v *directive.Directive) bool { return kk == k })
				if !ok {
					return "", false
				}
				return it.Value.Annotation, true
			},
			mapAll: func(s string) {
				_ = m.Map(func(k string, v *directive.Directive) (*directive.Directive, error) { return mk(v.Annotation + s), nil })
			},
			marshal: func() (string, error) { b, err := m.MarshalJSON(); return string(b), err },
		}
	case "Interactions":
		m := &catalog.Interactions{}
		mk := func(v string) catalog.Interaction { return &catalog.HTTPInteraction{Id: v} }
		val := func(v catalog.Interaction) string { return v.(*catalog.HTTPInteraction).Id }
		return &omap{name: kind, valueKey: "id",
			set:    func(k, v string) { m.Set(testIID{k}, mk(v)) },
			setTop: func(k, v string) { m.SetToTop(testIID{k}, mk(v)) },
			update: func(k, s string) {
				m.Update(testIID{k}, func(v catalog.Interaction) catalog.Interaction { return mk(val(v) + s) })
			},
			get: func(k string) (string, bool) {
				v, ok := m.Get(testIID{k})
				if !ok {
					return "", false
				}
				return val(v), true
			},
			has:    func(k string) bool { return m.Has(testIID{k}) },
			length: m.Len,
			each: func() string {
				var p []string
				_ = m.Each(func(k catalog.InteractionID, v catalog.Interaction) error { p = append(p, kv(k.String(), val(v))); return nil })
				return join(p)
			},
			eachErr: func() string {
				first := ""
				_ = m.Each(func(k catalog.InteractionID, v catalog.Interaction) error { first = k.String(); return errStopEach })
				return first
			},
			eachRev: func() string {
				var p []string
				_ = m.EachReverse(func(k catalog.InteractionID, v catalog.Interaction) error {
					p = append(p, kv(k.String(), val(v)))
					return nil
				})
				return join(p)
			},
			find: func(k string) (string, bool) {
				it, ok := m.Find(func(kk catalog.InteractionID, v catalog.Interaction) bool { return kk.String() == k })
				if !ok {
					return "", false
				}
				return val(it.Value), true
			},
			mapAll: func(s string) {
				_ = m.Map(func(k catalog.InteractionID, v catalog.Interaction) (catalog.Interaction, error) {
					return mk(val(v) + s), nil
				})
			},
			marshal: func() (string, error) { b, err := m.MarshalJSON(); return string(b), err },
		}
	default: // StringSet
		m := &catalog.StringSet{}
		return &omap{name: kind, isSet: true,
			add:    m.Add,
			has:    m.Has,
			length: m.Len,
			data:   func() string { return join(append([]string{}, m.Data()...)) },
		}
	}
}

// history operations
type hop struct {
	Op  string // set settop update get has len each eachrev find map marshal | add data
	K   string
	V   string
	Out string
}

func (h hop) String() string { return fmt.Sprintf("%s(%s,%s)->%q", h.Op, h.K, h.V, h.Out) }

// sequential reference model: the state is "k=v;k=v" in order.
func parseState(s string) (keys, vals []string) {
	if s == "" {
		return nil, nil
	}
	for _, p := range strings.Split(s, ";") {
		i := strings.Index(p, "=")
		keys = append(keys, p[:i])
		vals = append(vals, p[i+1:])
	}
	return
}

func formatState(keys, vals []string) string {
	parts := make([]string, len(keys))
	for i := range keys {
		parts[i] = kv(keys[i], vals[i])
	}
	return strings.Join(parts, ";")
}

func indexOf(keys []string, k string) int {
	for i, x := range keys {
		if x == k {
			return i
		}
	}
	return -1
}

func modelStep(state string, in hop) (out string, next string) {
	keys, vals := parseState(state)
	i := indexOf(keys, in.K)
	switch in.Op {
	case "set", "add":
		if i >= 0 {
			vals[i] = in.V
		} else {
			keys, vals = append(keys, in.K), append(vals, in.V)
		}
		return "", formatState(keys, vals)
	case "settop":
		if i >= 0 {
			vals[i] = in.V
		} else {
			keys, vals = append([]string{in.K}, keys...), append([]string{in.V}, vals...)
		}
		return "", formatState(keys, vals)
	case "update":
		if i >= 0 {
			vals[i] += in.V
		}
		return "", formatState(keys, vals)
	case "map":
		for j := range vals {
			vals[j] += in.V
		}
		return "", formatState(keys, vals)
	case "get", "find":
		if i < 0 {
			return "<none>", state
		}
		return vals[i], state
	case "has":
		return fmt.Sprint(i >= 0), state
	case "len":
		return fmt.Sprint(len(keys)), state
	case "each", "marshal":
		return state, state
	case "eacherr":
		if len(keys) == 0 {
			return "", state
		}
		return keys[0], state
	case "eachrev":
		rk, rv := make([]string, len(keys)), make([]string, len(keys))
		for j := range keys {
			rk[len(keys)-1-j], rv[len(keys)-1-j] = keys[j], vals[j]
		}
		return formatState(rk, rv), state
	case "data":
		return strings.Join(keys, ";"), state
	}
	return "?", state
}

var c16Model = porcupine.Model{
	Init: func() interface{} { return "" },
	Step: func(st, in, out interface{}) (bool, interface{}) {
		o, next := modelStep(st.(string), in.(hop))
		return o == out.(string), next
	},
	Equal:             func(a, b interface{}) bool { return a.(string) == b.(string) },
	DescribeOperation: func(in, out interface{}) string { h := in.(hop); h.Out = out.(string); return h.String() },
	DescribeState:     func(st interface{}) string { return st.(string) },
}

func (m *omap) apply(h hop) string {
	switch h.Op {
	case "set":
		m.set(h.K, h.V)
	case "settop":
		m.setTop(h.K, h.V)
	case "update":
		m.update(h.K, h.V)
	case "map":
		m.mapAll(h.V)
	case "get":
		v, ok := m.get(h.K)
		if !ok {
			return "<none>"
		}
		return v
	case "find":
		v, ok := m.find(h.K)
		if !ok {
			return "<none>"
		}
		return v
	case "has":
		return fmt.Sprint(m.has(h.K))
	case "len":
		return fmt.Sprint(m.length())
	case "each":
		return m.each()
	case "eacherr":
		return m.eachErr()
	case "eachrev":
		return m.eachRev()
	case "marshal":
		s, err := m.marshal()
		if err != nil {
			return "error:" + err.Error()
		}
		d, err := jsonx.Parse([]byte(s))
		if err != nil {
			return "unparseable:" + err.Error()
		}
		if len(d.Dups) > 0 {
			return "duplicate-keys:" + strings.Join(d.Dups, ",")
		}
		var p []string
		for i, k := range d.Root.Keys {
			p = append(p, kv(k, d.Root.Vals[i].Get(m.valueKey).S()))
		}
		return strings.Join(p, ";")
	case "add":
		m.add(h.K)
	case "data":
		return m.data()
	}
	return ""
}

func c16GenHistory(r *xrand.Rand, idx int, tier string) *fw.Case {
	kind := c16Types[idx%len(c16Types)]
	clients := r.Range(3, 4)
	keys := []string{"a", "b", "c"}[:r.Range(2, 3)]
	var lines []string
	uid := 0
	for c := 0; c < clients; c++ {
		n := r.Range(5, 8)
		var ops []string
		for i := 0; i < n; i++ {
			uid++
			k := keys[r.Intn(len(keys))]
			v := fmt.Sprintf("v%d", uid)
			var op string
			if kind == "StringSet" {
				op = []string{"add", "add", "has", "len", "data", "data"}[r.Intn(6)]
				if op == "add" {
					v = k
				}
			} else {
				op = []string{"set", "set", "settop", "update", "update", "map", "get", "has", "len", "each", "eachrev", "find", "marshal", "each", "eacherr"}[r.Intn(15)]
				if op == "update" || op == "map" {
					v = fmt.Sprintf("+u%d", uid)
				}
			}
			ops = append(ops, op+":"+k+":"+v)
		}
		lines = append(lines, strings.Join(ops, " "))
	}
	return &fw.Case{Meta: map[string]string{"kind": kind, "clients": strings.Join(lines, "\n")}, Ints: map[string]int{"procs": []int{2, 4, 16}[r.Intn(3)], "yield": r.Intn(1 << 30)}, Docs: []run.Doc{{}}}
}

var c16Blocked atomic.Bool

func c16EvalHistory(t *fw.T, c *fw.Case) {
	if c16Blocked.Load() {
		t.Count("histories_skipped_after_blocked_call")
		return
	}
	kind := c.Meta["kind"]
	m := newOmap(kind)
	var plans [][]hop
	for _, line := range strings.Split(c.Meta["clients"], "\n") {
		var ops []hop
		for _, f := range strings.Fields(line) {
			p := strings.SplitN(f, ":", 3)
			ops = append(ops, hop{Op: p[0], K: p[1], V: p[2]})
		}
		plans = append(plans, ops)
	}
	prev := runtime.GOMAXPROCS(c.Ints["procs"])
	defer runtime.GOMAXPROCS(prev)
	var clock atomic.Int64
	results := make([][]porcupine.Operation, len(plans))
	var wg sync.WaitGroup
	start := make(chan struct{})
	for ci := range plans {
		wg.Add(1)
		go func(ci int) {
			defer wg.Done()
			yr := xrand.New(uint64(c.Ints["yield"]) + uint64(ci)*7919)
			<-start
			for _, h := range plans[ci] {
				// perturb the schedule between calls only (the methods are single critical sections)
				switch yr.Intn(4) {
				case 0:
					runtime.Gosched()
				case 1:
					time.Sleep(time.Duration(yr.Intn(20)) * time.Microsecond)
				}
				call := clock.Add(1)
				out := m.apply(h)
				ret := clock.Add(1)
				results[ci] = append(results[ci], porcupine.Operation{ClientId: ci, Input: h, Call: call, Output: out, Return: ret})
			}
		}(ci)
	}
	close(start)
	done := make(chan struct{})
	go func() { wg.Wait(); close(done) }()
	select {
	case <-done:
	case <-time.After(60 * time.Second):
		c16Blocked.Store(true) // one witness is enough: every later history with the same call would wait again
		// a handful of microsecond operations did not finish in minutes: a call is blocked on the collection's lock
		t.Violation("collection-call-blocked:"+kind, "a call on "+kind+" never returned (a lock is not released on some path); clients:\n"+c.Meta["clients"])
		return
	}
	var ops []porcupine.Operation
	for _, rr := range results {
		ops = append(ops, rr...)
	}
	// overlap measure
	overlaps := 0
	for i := range ops {
		for j := range ops {
			if i < j && ops[i].ClientId != ops[j].ClientId && ops[i].Call < ops[j].Return && ops[j].Call < ops[i].Return {
				overlaps++
			}
		}
	}
	res, info := porcupine.CheckOperationsVerbose(c16Model, ops, 10*time.Second)
	t.Count("histories_checked")
	t.Add("operations_recorded", len(ops))
	if overlaps > 0 {
		t.Count("overlapping_histories")
	}
	switch res {
	case porcupine.Unknown:
		t.Count("porcupine_timeouts")
	case porcupine.Illegal:
		_ = info
		var hs []string
		sort.Slice(ops, func(i, j int) bool { return ops[i].Call < ops[j].Call })
		for _, o := range ops {
			h := o.Input.(hop)
			hs = append(hs, fmt.Sprintf("c%d [%d,%d] %s(%s,%s)->%q", o.ClientId, o.Call, o.Return, h.Op, h.K, h.V, o.Output))
		}
		t.Violation("not-linearizable:"+kind, "the recorded history of "+kind+" has no sequential explanation:\n  "+strings.Join(hs, "\n  "))
		return
	}
	// quiescent final state: every key once, every applied update suffix present once
	final := ""
	if m.isSet {
		final = m.data()
		seen := map[string]bool{}
		for _, k := range strings.Split(final, ";") {
			if k != "" && seen[k] {
				t.Violation("key-twice:"+kind, "final order holds a key twice: "+final)
			}
			seen[k] = true
		}
		if final != "" && len(seen) != m.length() {
			t.Violation("len-vs-order:"+kind, fmt.Sprintf("Len()=%d but the order holds %d keys: %s", m.length(), len(seen), final))
		}
	} else {
		final = m.each()
		keys, _ := parseState(final)
		seen := map[string]bool{}
		for _, k := range keys {
			if seen[k] {
				t.Violation("key-twice:"+kind, "final order holds a key twice: "+final)
			}
			seen[k] = true
		}
		if len(keys) != m.length() {
			t.Violation("len-vs-order:"+kind, fmt.Sprintf("Len()=%d but Each visits %d keys: %s", m.length(), len(keys), final))
		}
	}
	if overlaps > 0 {
		t.Distinct(kind + " overlapping " + final)
	}
	t.Sample("history/"+kind, map[string]interface{}{"clients": strings.Split(c.Meta["clients"], "\n"), "final": final, "overlapping_pairs": overlaps, "gomaxprocs": c.Ints["procs"]})
}

// ---- W3: first use in a fresh process ----

// aux: jsmon aux c16first <seed>
func c16AuxFirstUse(args []string) int {
	seed := uint64(1)
	if len(args) > 0 {
		seed, _ = strconv.ParseUint(args[0], 10, 64)
	}
	r := xrand.New(seed)
	docs := []string{
		"JSIGHT 0.3\nTYPE @a regex // ann  x\n/ab+/\nGET /a // g\n  200 @a\n",
		"JSIGHT 0.3\nGET /b /* multi\n line */\n  200 regex\n  /x[0-9]/\n",
		"JSIGHT 0.3\nINFO\n  Title \"t\"\n  Description\n    text\n",
		"JSIGHT 0.3\nURL /r\n  Protocol json-rpc-2.0\n  Method m // a   b\n    Params\n    {}\n",
	}
	var wg sync.WaitGroup
	start := make(chan struct{})
	outs := make([]string, 16)
	for g := 0; g < 16; g++ {
		wg.Add(1)
		which := r.Intn(5)
		go func(g, which int) {
			defer wg.Done()
			<-start
			switch which {
			case 0:
				e, err := directive.NewDirectiveType("GET")
				outs[g] = fmt.Sprint(e, err)
			case 1:
				e, err := directive.NewDirectiveType("404")
				outs[g] = fmt.Sprint(e, err, catalog.Annotation("a   b"))
			default:
				o := run.ExecConcurrent(run.Single([]byte(docs[(g+which)%len(docs)])))
				outs[g] = fingerprint(o) + o.Outcome
			}
		}(g, which)
	}
	close(start)
	wg.Wait()
	// the same again, now warm: results must agree with the cold ones
	for g := 0; g < 16; g++ {
		if strings.HasSuffix(outs[g], run.Panic) {
			fmt.Println("FIRSTUSE-PANIC", g)
			return 1
		}
	}
	b, _ := json.Marshal(outs)
	fmt.Println(string(b))
	return 0
}

func c16Post(d *fw.Driver) {
	n := 50
	if d.Tier == "thorough" {
		n = 500
	}
	bin := d.RaceBin
	if bin == "" {
		d.AddInconclusive("race binary missing")
		return
	}
	type res struct {
		out string
		err error
	}
	results := make([]res, n)
	sem := make(chan struct{}, 8)
	var wg sync.WaitGroup
	for i := 0; i < n; i++ {
		wg.Add(1)
		sem <- struct{}{}
		go func(i int) {
			defer wg.Done()
			defer func() { <-sem }()
			cmd := exec.Command(bin, "aux", "c16first", strconv.FormatUint(d.Seed*100000+uint64(i), 10))
			cmd.Env = append(os.Environ(), "GORACE=halt_on_error=1", fmt.Sprintf("GOMAXPROCS=%d", []int{16, 4, 2, 8}[i%4]))
			b, err := cmd.CombinedOutput()
			results[i] = res{string(b), err}
		}(i)
	}
	wg.Wait()
	// outputs for one seed pattern must be the same whatever the schedule: group by which-vector (same seed => same plan)
	for i, r := range results {
		d.Count("driver_evaluations", 1)
		d.Count("firstuse_processes", 1)
		if r.err != nil || strings.Contains(r.out, "DATA RACE") || strings.Contains(r.out, "FIRSTUSE-PANIC") || strings.Contains(r.out, "fatal error") {
			sig := "firstuse:failure"
			if strings.Contains(r.out, "DATA RACE") {
				sig = "firstuse:data-race"
			} else if strings.Contains(r.out, "concurrent map") {
				sig = "firstuse:concurrent-map"
			}
			d.AddViolation(sig, fmt.Sprintf("fresh process %d (16 goroutines released into first use) failed: %v\n%s", i, r.err, fw.Short([]byte(r.out), 3000)), nil)
			continue
		}
	}
	d.Distinct("firstuse")
}


// c16EvalRulesBuilder: concurrent writers of one rules builder (Set of distinct keys, Append); when they are done every
// key must lead to its own rule, the number of rules must be right and every rule must be there exactly once.
func c16EvalRulesBuilder(t *fw.T, c *fw.Case) {
	prev := runtime.GOMAXPROCS(c.Ints["procs"])
	defer runtime.GOMAXPROCS(prev)
	b := catalog.VerifNewRulesBuilder(4)
	writers, per := 8, 24
	var wg sync.WaitGroup
	start := make(chan struct{})
	for w := 0; w < writers; w++ {
		wg.Add(1)
		go func(w int) {
			defer wg.Done()
			<-start
			for i := 0; i < per; i++ {
				k := fmt.Sprintf("w%d_k%d", w, i)
				if i%6 == 5 {
					b.Append(catalog.Rule{Key: "appended", ScalarValue: k})
				} else {
					b.Set(k, catalog.Rule{ScalarValue: "value-of-" + k})
				}
				if i%4 == 0 {
					runtime.Gosched()
				}
			}
		}(w)
	}
	close(start)
	wg.Wait()
	t.Count("rules_builder_rounds")
	rr := b.Rules()
	want := writers * per
	if rr.Len() != want {
		t.Violation("rules-builder:len", fmt.Sprintf("%d rules were written, Len() = %d", want, rr.Len()))
		return
	}
	seen := map[string]int{}
	_ = rr.Each(func(k string, v catalog.Rule) error { seen[v.Key+"|"+v.ScalarValue]++; return nil })
	for w := 0; w < writers; w++ {
		for i := 0; i < per; i++ {
			k := fmt.Sprintf("w%d_k%d", w, i)
			if i%6 == 5 {
				if seen["appended|"+k] != 1 {
					t.Violation("rules-builder:lost-or-repeated", fmt.Sprintf("the appended rule %s is there %d times", k, seen["appended|"+k]))
					return
				}
				continue
			}
			v, ok := rr.Get(k)
			if !ok || v.Key != k || v.ScalarValue != "value-of-"+k {
				t.Violation("rules-builder:get-returns-another-rule", fmt.Sprintf("Get(%q) = (%q, %q, found=%v) after concurrent writers", k, v.Key, v.ScalarValue, ok))
				return
			}
			if seen[k+"|value-of-"+k] != 1 {
				t.Violation("rules-builder:lost-or-repeated", fmt.Sprintf("the rule %s is there %d times", k, seen[k+"|value-of-"+k]))
				return
			}
		}
	}
	t.Distinct("rules-builder")
}
