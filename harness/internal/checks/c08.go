package checks

import (
	"github.com/jsightapi/jsight-api-go-library/kit"
	"bufio"
	"bytes"
	"fmt"
	"os"
	"os/exec"
	"path/filepath"
	"regexp"
	"sort"
	"strconv"
	"strings"
	"sync"

	"verifharness/internal/fw"
	"verifharness/internal/gen"
	"verifharness/internal/jsonx"
	"verifharness/internal/run"
	"verifharness/internal/xrand"
)

var c08NameSymbols = []string{".", "/", "\\", "a", "b"}

func init() {
	fw.Register(&fw.Check{
		ID:    "C08",
		Level: "exploration",
		Rule: "(a) 'cuts', metamorphic: a generated model is rendered as one file and as a project cut into files (any run of complete top-level directives or of complete implicitly nested children moved into another file with an INCLUDE in its place; " +
			"included files in the including file's directory or below; nesting to the depth bound; several files from one place; also under implicitly nested directives that stand inside parenthesised ones; " +
			"a third of the included files without a final line break; extra INCLUDEs of files that hold no directive at all - empty, blank, comment-only): same verdict, byte-identical catalog. " +
			"(b) 'names', bounded-exhaustive and end-to-end: every string over {. / \\ a b} up to the length bound is used as INCLUDE <name> in a real project inside a scratch tree that has files and directories of those names inside the project directory " +
			"and marker files at every ancestor level outside it: dangerous (absolute, a '.' or '..' component, a backslash) => rejected; no accepted catalog holds a marker declared outside the project directory. " +
			"(c) 'targets': absent file, directory, empty file, path through a file (ENOTDIR), symlink loop (ELOOP), dangling symlink, self-include, two- and three-file cycles, JSIGHT in an included file, and (strace-injected) unreadable / un-stat-able targets: a diagnostic, never a crash, never acceptance of a cycle. " +
			"(d) 'opens': a batch of names runs under strace; every open/openat/readlink under the scratch base must stay inside the project directory (a bare stat outside is counted, not judged). " +
			"distinct_nontrivial = distinct (family, outcome class, cut depth | name shape)",
		Assumptions: []string{
			"over-rejection of harmless names (e.g. 'a/..b') is not a violation: the name rule is checked in one direction",
			"strace (ptrace) is available; when it is not the 'opens' part is reported inconclusive",
		},
		Exhaustive: true,
		Families: []fw.Family{
			{Name: "cuts", N: constN(3000, 100000), Gen: genModelCase, Eval: c08EvalCuts},
			{Name: "names", Stream: c08StreamNames, Eval: c08EvalName},
			{Name: "targets", N: constN(400, 6000), Gen: c08GenTarget, Eval: c08EvalTarget},
			{Name: "projects-open-together", N: constN(300, 6000), Gen: func(r *xrand.Rand, idx int, tier string) *fw.Case {
				return &fw.Case{Docs: []run.Doc{{}}}
			}, Eval: c08EvalOpenTogether},
			{Name: "unclosed-before-include", N: func(string) int { return 24 }, Gen: func(r *xrand.Rand, idx int, tier string) *fw.Case {
				return &fw.Case{Ints: map[string]int{"v": idx}, Docs: []run.Doc{{}}}
			}, Eval: c08EvalUnclosed},
			{Name: "shared-file", N: constN(1200, 40000), Gen: func(r *xrand.Rand, idx int, tier string) *fw.Case {
				return &fw.Case{Docs: []run.Doc{{}}}
			}, Eval: c08EvalShared},
		},
		Floors: map[string]int64{"cuts_compared": 1500, "names_checked": 15000},
		Post:   c08Post,
	})
	fw.RegisterAux("c08opens", c08AuxOpens)
}

var c08JsightLine = regexp.MustCompile(`^[ \t]*JSIGHT[ \t]+"?0\.3"?[ \t]*(\r\n|\n|\r)`)

var c08Opt = gen.Options{MaxBlocks: 12, AllowAllOf: true}

type cutPlan struct {
	seed     uint64
	density  int
	maxDepth int
	depthMax int
	sites    int
}

func (p *cutPlan) hook(label, kind string, depth int) string {
	if depth >= p.maxDepth {
		return ""
	}
	h := xrand.HashStr(fmt.Sprintf("%d|%s", p.seed, parentOf(label)))
	h2 := xrand.HashStr(fmt.Sprintf("%d|%s", p.seed, label))
	if int(h2%uint64(p.density)) != 0 && int(h%uint64(p.density*2)) != 0 {
		return ""
	}
	p.sites++
	if depth+1 > p.depthMax {
		p.depthMax = depth + 1
	}
	return "include"
}

func c08EvalCuts(t *fw.T, c *fw.Case) {
	m, r := modelOf(c, c08Opt)
	st := gen.RandomStyle(r.Fork())
	st.QuoteParams = []int{0, 2}[r.Intn(2)]
	stCopy := *st
	ss := r.Uint64()
	st.R = xrand.New(ss)
	plan := &cutPlan{seed: r.Uint64(), density: r.Range(2, 5), maxDepth: t.Pick(3, 6)}
	stray_ := false
	if c.Index%4 == 3 && len(m.Blocks) > 1 {
		// a directive that may be out of place where it stands (whether it is depends on what stands in front of it,
		// cut out or not): the verdict of the cut project is the verdict of the text in one piece
		stray := []string{"404 any\n", "Headers\n  {\"h\": \"v\"}\n", "Body any\n", "Query\n  {}\n", "Request any\n", "BaseUrl \"https://stray/\"\n", "Version 9\n", "Title \"stray\"\n", "Result\n  {}\n", "Protocol json-rpc-2.0\n"}[r.Intn(10)]
		pos := r.Range(1, len(m.Blocks))
		nb := append([]*gen.Block{}, m.Blocks[:pos]...)
		nb = append(nb, &gen.Block{Kind: "raw", Name: stray})
		m = &gen.Model{Blocks: append(nb, m.Blocks[pos:]...)}
		t.Count("cuts_with_a_stray_directive")
		stray_ = true
	}
	cut := gen.RenderWith(m, gen.RenderOpts{Style: st, Paste: plan.hook, RepeatIncludeNames: c.Index%2 == 0})
	stCopy.R = xrand.New(ss)
	whole := gen.RenderWith(m, gen.RenderOpts{Style: &stCopy})
	if stray_ {
		// where a stray directive lands depends on every parenthesis in front of it: both forms in the plain style, in
		// which the two texts differ by the cuts only
		cut = gen.RenderWith(m, gen.RenderOpts{Paste: plan.hook, RepeatIncludeNames: c.Index%2 == 0})
		whole = gen.RenderWith(m, gen.RenderOpts{})
	}
	if len(cut.Files) == 0 {
		t.Count("no_cut_site")
		return
	}
	files := map[string][]byte{"root.jst": []byte(cut.Text)}
	for k, v := range cut.Files {
		files[k] = []byte(v)
	}
	// the files of a project need not end with a line break, and a file may hold no directive at all (empty, blank lines,
	// comments only): including it is the inclusion of nothing
	{
		h := xrand.New(r.Uint64())
		names := make([]string, 0, len(files))
		for k := range files {
			names = append(names, k)
		}
		sort.Strings(names)
		nothing := [][]byte{{}, []byte("\n\n"), []byte("# to be filled in\n"), []byte("###\nnothing yet\n###\n"), []byte("   \n\t\n"), []byte("# no line break at the end")}
		nEmpty := 0
		addNothing := func(dir string, text []byte, at int, nl string) []byte {
			nEmpty++
			nm := fmt.Sprintf("zznothing%d.jst", nEmpty)
			if dir == "." {
				files[nm] = nothing[h.Intn(len(nothing))]
			} else {
				files[dir+"/"+nm] = nothing[h.Intn(len(nothing))]
			}
			ins := []byte("INCLUDE " + nm + nl)
			return append(append(append([]byte{}, text[:at]...), ins...), text[at:]...)
		}
		for _, k := range names {
			v := files[k]
			nl := "\n"
			if bytes.Contains(v, []byte("\r\n")) {
				nl = "\r\n"
			} else if bytes.Contains(v, []byte("\r")) {
				nl = "\r"
			}
			if k != "root.jst" {
				if h.Chance(1, 4) {
					v = addNothing(filepath.ToSlash(filepath.Dir(k)), v, 0, nl)
					t.Count("includes_of_nothing")
				}
				if h.Chance(1, 3) {
					v = bytes.TrimRight(v, "\r\n")
					t.Count("files_without_final_line_break")
				}
			} else if loc := c08JsightLine.FindIndex(v); loc != nil && h.Chance(1, 2) {
				v = addNothing(".", v, loc[1], nl)
				t.Count("includes_of_nothing")
			}
			files[k] = v
		}
	}
	dc := run.Doc{Files: files, Root: "root.jst", FixedSeed: true}
	dw := run.Single([]byte(whole.Text))
	dw.FixedSeed = true
	c.Docs = []run.Doc{dc, dw}
	oc := t.Exec(dc)
	ow := t.Exec(dw)
	t.Count("cuts_compared")
	t.Add("include_files", len(cut.Files))
	if oc.Outcome == run.Panic || oc.Outcome == run.Budget {
		t.Violation("cut-form-crashes:"+outcomeSig(oc), fmt.Sprintf("the cut project %s: %s", oc.Outcome, oc.PanicVal))
		return
	}
	if oc.Outcome != ow.Outcome {
		t.Violation("verdict-differs:"+oc.Outcome+"-vs-"+ow.Outcome+":"+rejMsg(oc, ow), fmt.Sprintf("cut project: %s\nsingle file: %s\n--- root of the cut project\n%s\n--- files %v", describe(oc), describe(ow), cut.Text, keysOf(cut.Files)))
		return
	}
	if oc.Outcome == run.Accepted && !bytes.Equal(oc.JSON, ow.JSON) {
		cls, where := "?", ""
		a, e1 := jsonx.Parse(oc.JSON)
		b, e2 := jsonx.Parse(ow.JSON)
		if e1 == nil && e2 == nil {
			where = jsonx.Diff(a.Root, b.Root, "$")
			cls = diffClass(where)
		}
		t.Violation("catalog-differs:"+cls, fmt.Sprintf("including differs from writing the text in place: %s\n--- root of the cut project\n%s", where, cut.Text))
		return
	}
	t.Distinct(fmt.Sprintf("cuts depth%d files%d %s", plan.depthMax, min(len(cut.Files), 6), oc.Outcome))
	t.Sample("cuts", map[string]interface{}{"root": cut.Text, "files": keysOf(cut.Files), "outcome": oc.Outcome})
}

func keysOf(m map[string]string) []string {
	var out []string
	for k := range m {
		out = append(out, k)
	}
	return out
}

// c08EvalOpenTogether: two or three projects in different directories, with included files of the same names and
// different contents, are all opened before the first is processed (a service that keeps projects open; a tool that
// collects, then validates). Every project must read its own files: the result equals the one it gives alone, and the
// working directory of the process is not touched.
func c08EvalOpenTogether(t *fw.T, c *fw.Case) {
	r := xrand.Derive(t.Seed, c.Index, "C08", "together")
	n := r.Range(2, 3)
	var docs []run.Doc
	for i := 0; i < n; i++ {
		inc := []string{"inc.jst", "parts/inc.jst", "types.jst"}[c.Index%3]
		files := map[string][]byte{
			"main.jst": []byte(fmt.Sprintf("JSIGHT 0.3\nINCLUDE %s\nGET /p%d\n  200 @t%d\n", inc, i, i)),
			inc:        []byte(fmt.Sprintf("TYPE @t%d\n{\"project\": %d}\n", i, i)),
		}
		if r.Chance(1, 3) { // a second level
			files[inc] = []byte(fmt.Sprintf("INCLUDE deeper.jst\nTYPE @t%d\n{\"project\": %d, \"d\": @d%d}\n", i, i, i))
			files[filepath.ToSlash(filepath.Join(filepath.Dir(inc), "deeper.jst"))] = []byte(fmt.Sprintf("TYPE @d%d\n\"deep %d\"\n", i, i))
		}
		docs = append(docs, run.Doc{Files: files, Root: "main.jst", OnDisk: true})
	}
	c.Docs = docs
	var solo []*run.Obs
	var dirs []string
	for _, d := range docs {
		o := t.Exec(d)
		solo = append(solo, o)
		dirs = append(dirs, o.Dir)
		if o.Outcome != run.Accepted {
			t.Violation("valid-project-rejected:"+outcomeSig(o), fmt.Sprintf("%s\n%s", describe(o), d.Files["main.jst"]))
			return
		}
	}
	wd0, _ := os.Getwd()
	var open []kit.JApi
	for i := range docs {
		j, err := kit.NewJapi(filepath.Join(dirs[i], "main.jst"))
		if err != nil {
			t.Violation("open-together:new-error", err.Error())
			return
		}
		open = append(open, j)
	}
	order := r.Perm(n)
	t.Count("projects_open_together")
	for _, i := range order {
		je := open[i].ValidateJAPI()
		if je != nil {
			t.Violation("open-together:verdict-differs", fmt.Sprintf("project %d of %d (all opened before any was processed) is rejected: %s; alone it is accepted\n%s", i, n, je.Error(), docs[i].Files["main.jst"]))
			break
		}
		b, _ := open[i].ToJson()
		if string(b) != string(solo[i].JSON) {
			t.Violation("open-together:catalog-differs", fmt.Sprintf("project %d of %d (all opened before any was processed) gives another catalog than alone\n--- together\n%s\n--- alone\n%s", i, n, fw.Short(b, 500), fw.Short(solo[i].JSON, 500)))
			break
		}
	}
	if wd1, _ := os.Getwd(); wd1 != wd0 {
		_ = os.Chdir(wd0)
		t.Violation("working-directory-changed", fmt.Sprintf("processing a project changed the working directory of the process from %s to %s", wd0, wd1))
	}
	t.Distinct(fmt.Sprintf("open together n%d", n))
}

// c08EvalUnclosed: a parenthesis that is never closed, with the last children of its directive moved into an included
// file so that the file which opened it ends with the INCLUDE (or with blanks and comments after it), one, two or three
// files deep: rejected like the text in one piece.
func c08EvalUnclosed(t *fw.T, c *fw.Case) {
	v := c.Ints["v"]
	opener := []string{"URL /a\n(\n  GET\n", "GET /a\n(\n", "URL /a\n  GET\n  (\n", "POST /a\n  Request\n  (\n    Headers\n      {\"h\": \"v\"}\n"}[v%4]
	moved := []string{"    200 any\n", "  200 any\n", "    200 any\n", "    Body any\n"}[v%4]
	after := []string{"", "\n", "# nothing more\n", "   \n\n"}[(v/4)%4]
	if v/16 == 1 && v%4 == 3 {
		after = "  200 any\n" // a directive after the INCLUDE, inside the same open parenthesis
	}
	depth := 1 + (v/8)%3
	whole := run.Single([]byte("JSIGHT 0.3\n" + opener + moved + after))
	files := map[string][]byte{}
	// root -> (depth-1 pass-through files) -> the file with the opener -> the moved children
	name := func(i int) string { return fmt.Sprintf("f%d.jst", i) }
	files["root.jst"] = []byte("JSIGHT 0.3\n")
	cur := "root.jst"
	for i := 1; i < depth; i++ {
		files[cur] = append(files[cur], []byte("INCLUDE "+name(i)+"\n")...)
		cur = name(i)
		files[cur] = nil
	}
	files[cur] = append(files[cur], []byte(opener+"INCLUDE moved.jst\n"+after)...)
	files["moved.jst"] = []byte(moved)
	cut := run.Doc{Files: files, Root: "root.jst"}
	c.Docs = []run.Doc{cut, whole}
	ow, oc := t.Exec(whole), t.Exec(cut)
	t.Count("unclosed_before_include_checked")
	if ow.Outcome != run.Rejected {
		t.Violation("unclosed-accepted-in-one-piece", fmt.Sprintf("a parenthesis that is never closed: %s\n%s", describe(ow), whole.Files[whole.Root]))
		return
	}
	if oc.Outcome != ow.Outcome {
		t.Violation("verdict-differs:"+oc.Outcome+"-vs-"+ow.Outcome+":unclosed-before-include", fmt.Sprintf("a parenthesis that is never closed, the last children moved into an included file: %s; in one piece: %s\n--- file with the parenthesis\n%s", describe(oc), describe(ow), files[cur]))
		return
	}
	t.Distinct(fmt.Sprintf("unclosed depth%d", depth))
}

// ---- names ----

const c08Proj = "l1/l2/proj"

// c08Tree is the scratch tree: names inside the project directory declare @in…, names outside declare @OUTSIDE….
func c08Tree() map[string][]byte {
	f := map[string][]byte{}
	in := func(rel, typ string) { f[c08Proj+"/"+rel] = []byte("TYPE @in_" + typ + " any\n") }
	in("a", "a")
	in("aa", "aa")
	in("ab", "ab")
	in("a.b", "a_dot_b")
	in(".a", "dot_a")
	in("..a", "dotdot_a")
	in("a.", "a_dot")
	in("a\\b", "a_backslash_b")
	in("\\a", "backslash_a")
	in("b/a", "b_a")
	in("b/b", "b_b")
	in("b/ab", "b_ab")
	in("b/.a", "b_dot_a")
	in("bb/a", "bb_a")
	in("b/a/"[:3]+"a.a", "b_a_a")
	in("ba/b/a", "ba_b_a")
	// outside the project directory: every ancestor level
	out := func(path, typ string) { f[path] = []byte("TYPE @OUTSIDE_" + typ + " any\n") }
	out("l1/l2/a", "l2_a")
	out("l1/l2/b", "l2_b")
	out("l1/l2/aa", "l2_aa")
	out("l1/l2/ab", "l2_ab")
	out("l1/a", "l1_a")
	out("l1/b", "l1_b")
	out("a", "base_a")
	out("b", "base_b")
	out("l1/l2/bdir/a", "l2_bdir_a")
	return f
}

var c08TreeOnce sync.Once
var c08TreePath string

// c08TreeDir writes the scratch tree once per worker process.
func c08TreeDir() string {
	c08TreeOnce.Do(func() {
		dir := run.ScratchSub("c08tree")
		_ = os.RemoveAll(dir)
		for name, content := range c08Tree() {
			p := filepath.Join(dir, name)
			_ = os.MkdirAll(filepath.Dir(p), 0o755)
			_ = os.WriteFile(p, content, 0o644)
		}
		c08TreePath = dir
	})
	return c08TreePath
}

func c08StreamNames(t *fw.T, shard, nshards int, emit func(*fw.Case)) {
	maxLen := t.Pick(6, 8)
	n := 0
	enumerate(c08NameSymbols, maxLen, func(s string) {
		n++
		if n%nshards != shard {
			emit(nil)
			return
		}
		emit(&fw.Case{Meta: map[string]string{"name": s}, Docs: []run.Doc{{}}})
	})
}

func dangerousName(s string) bool {
	if strings.HasPrefix(s, "/") || strings.Contains(s, "\\") {
		return true
	}
	for _, comp := range strings.Split(s, "/") {
		if comp == "." || comp == ".." {
			return true
		}
	}
	return false
}

func nameShape(s string) string {
	s = strings.ReplaceAll(s, "b", "a")
	for strings.Contains(s, "aa") {
		s = strings.ReplaceAll(s, "aa", "a")
	}
	return s
}

func c08NameDoc(name string, quoted bool) run.Doc {
	files := c08Tree()
	p := name
	if quoted {
		p = quoteParam(name)
	}
	files[c08Proj+"/root.jst"] = []byte("JSIGHT 0.3\nINCLUDE " + p + "\n")
	return run.Doc{Files: files, Root: c08Proj + "/root.jst"}
}

func c08EvalName(t *fw.T, c *fw.Case) {
	name := c.Meta["name"]
	for _, quoted := range []bool{false, true} {
		d := c08NameDoc(name, quoted)
		c.Docs[0] = d
		if !t.Replay {
			d.ReuseDir = c08TreeDir()
		}
		o := t.Exec(d)
		t.Count("names_checked")
		danger := dangerousName(name)
		switch o.Outcome {
		case run.Accepted:
			if danger {
				t.Violation("dangerous-name-accepted:"+nameShape(name), fmt.Sprintf("INCLUDE %q (quoted=%v) is accepted although the name is absolute, has a '.'/'..' component or a backslash; catalog %s", name, quoted, fw.Short(o.JSON, 300)))
				return
			}
			if bytes.Contains(o.JSON, []byte("@OUTSIDE_")) {
				t.Violation("outside-file-included:"+nameShape(name), fmt.Sprintf("INCLUDE %q (quoted=%v) brought in a declaration from outside the project directory: %s", name, quoted, fw.Short(o.JSON, 300)))
				return
			}
			t.Count("names_accepted")
			t.Distinct("name accepted " + name)
		case run.Rejected:
			if run.RuntimeFaultText(o.ErrText) {
				t.Violation("name-runtime-fault", describe(o))
				return
			}
			t.Distinct("name rejected " + run.MsgTemplate(o.Msg) + " " + nameShape(name))
		default:
			t.Violation("name-"+o.Outcome+":"+outcomeSig(o), fmt.Sprintf("INCLUDE %q (quoted=%v): %s %s", name, quoted, o.Outcome, o.PanicVal))
			return
		}
	}
}

// ---- targets ----

var c08TargetKinds = []string{"same-name-other-dir", "same-name-other-dir-missing", "case-differs", "absent", "directory", "empty", "enotdir", "eloop", "dangling-symlink", "self", "cycle2", "cycle3", "jsight-in-include", "symlink-outside", "deep-ok", "same-file-twice", "fifo", "device", "jsight-only-in-include", "jsight-in-second-include", "jsight-in-include-after-paren"}

func c08GenTarget(r *xrand.Rand, idx int, tier string) *fw.Case {
	kind := c08TargetKinds[idx%len(c08TargetKinds)]
	files := map[string][]byte{}
	pre := ""
	if r.Bool() {
		pre = "TYPE @before any\n"
	}
	post := ""
	if r.Bool() {
		post = "TYPE @after any\n"
	}
	wrap := func(inc string) string {
		switch r.Intn(3) {
		case 0:
			return "URL /w\n  " + inc + "\n"
		case 1:
			return "GET /w\n  200 any\n  " + inc + "\n"
		}
		return inc + "\n"
	}
	root := "JSIGHT 0.3\n" + pre
	switch kind {
	case "absent":
		root += wrap("INCLUDE nothere.jst")
	case "directory":
		files["adir/"] = nil
		root += wrap("INCLUDE adir")
	case "empty":
		files["empty.jst"] = []byte{}
		root += wrap("INCLUDE empty.jst")
	case "fifo":
		files["pipe.jst@fifo"] = nil
		root += wrap("INCLUDE pipe.jst")
	case "device":
		files["zero.jst@symlink"] = []byte("/dev/zero")
		root += wrap("INCLUDE zero.jst")
	case "enotdir":
		files["file.jst"] = []byte("TYPE @f any\n")
		root += wrap("INCLUDE file.jst/inner.jst")
	case "eloop":
		files["loop1@symlink"] = []byte("loop2")
		files["loop2@symlink"] = []byte("loop1")
		root += wrap("INCLUDE loop1")
	case "dangling-symlink":
		files["dangling@symlink"] = []byte("nowhere.jst")
		root += wrap("INCLUDE dangling")
	case "self":
		root += wrap("INCLUDE root.jst")
	case "cycle2":
		files["a.jst"] = []byte("TYPE @a any\nINCLUDE b.jst\n")
		files["b.jst"] = []byte("TYPE @b any\nINCLUDE a.jst\n")
		root += wrap("INCLUDE a.jst")
	case "cycle3":
		files["a.jst"] = []byte("TYPE @a any\nINCLUDE sub/b.jst\n")
		files["sub/b.jst"] = []byte("TYPE @b any\nINCLUDE c.jst\n")
		files["sub/c.jst"] = []byte("TYPE @c any\nINCLUDE b.jst\n")
		root += wrap("INCLUDE a.jst")
	case "jsight-only-in-include":
		// the including file has no JSIGHT of its own and the INCLUDE is the first thing in it
		files["j.jst"] = []byte("JSIGHT 0.3\nTYPE @j any\n")
		root = "INCLUDE j.jst\n" + post
		post = ""
	case "jsight-in-second-include":
		files["first.jst"] = []byte("TYPE @first any\n")
		files["j.jst"] = []byte("JSIGHT 0.3\nTYPE @j any\n")
		root = "INCLUDE first.jst\nINCLUDE j.jst\n"
	case "jsight-in-include-after-paren":
		files["j.jst"] = []byte("JSIGHT 0.3\nTYPE @j any\n")
		root = "URL /w\n(\n  GET\n    200 any\n)\nINCLUDE j.jst\n"
	case "jsight-in-include":
		files["j.jst"] = []byte("JSIGHT 0.3\nTYPE @j any\n")
		root += wrap("INCLUDE j.jst")
	case "symlink-outside":
		// a symbolic link inside the project directory that points out of it
		files["../outside.jst"] = []byte("TYPE @OUTSIDE_via_symlink any\n")
		files["out@symlink"] = []byte("../outside.jst")
		root += "INCLUDE out\n"
	case "deep-ok":
		files["d1/a.jst"] = []byte("TYPE @d1a any\nINCLUDE d2/b.jst\n")
		files["d1/d2/b.jst"] = []byte("TYPE @d2b any\nINCLUDE d3/c.jst\n")
		files["d1/d2/d3/c.jst"] = []byte("TYPE @d3c any\n")
		root += "INCLUDE d1/a.jst\n"
	case "same-name-other-dir":
		// the same written name in two including files of different directories names two different files
		files["resp.jst"] = []byte("TYPE @fromTop any\n")
		files["sub/resp.jst"] = []byte("TYPE @fromSub any\n")
		files["sub/more.jst"] = []byte("INCLUDE resp.jst\n")
		root += "INCLUDE resp.jst\nINCLUDE sub/more.jst\n"
	case "same-name-other-dir-missing":
		files["resp.jst"] = []byte("TYPE @fromTop any\n")
		files["sub/more.jst"] = []byte("INCLUDE resp.jst\n")
		root += "INCLUDE resp.jst\nINCLUDE sub/more.jst\n"
	case "case-differs":
		files["types.jst"] = []byte("TYPE @lower any\nINCLUDE Types.jst\n")
		files["Types.jst"] = []byte("TYPE @upper any\nINCLUDE more.jst\n")
		files["more.jst"] = []byte("TYPE @more any\n")
		root += "INCLUDE types.jst\n"
	case "same-file-twice":
		files["resp.jst"] = []byte("  200 any\n")
		root += "GET /one\n  INCLUDE resp.jst\nGET /two\n  INCLUDE resp.jst\n"
	}
	root += post
	// the project lives in proj/, so that "outside the project directory" exists inside the scratch directory
	pf := map[string][]byte{}
	for k, v := range files {
		pf[filepath.Clean("proj/"+k)+dirSuffix(k)] = v
	}
	pf["proj/root.jst"] = []byte(root)
	c := &fw.Case{Docs: []run.Doc{{Files: pf, Root: "proj/root.jst", OnDisk: true}}, Note: "include target: " + kind}
	c.Meta = map[string]string{"kind": kind}
	return c
}

func dirSuffix(k string) string {
	if strings.HasSuffix(k, "/") {
		return "/"
	}
	return ""
}

func c08EvalTarget(t *fw.T, c *fw.Case) {
	kind := c.Meta["kind"]
	d := c.Docs[0]
	o := t.Exec(d)
	t.Count("targets_checked")
	if o.Outcome == run.Panic || o.Outcome == run.Budget {
		t.Violation("target-"+o.Outcome+":"+kind+":"+outcomeSig(o), fmt.Sprintf("include target %s: %s %s", kind, o.Outcome, o.PanicVal))
		return
	}
	if o.Outcome == run.Rejected && run.RuntimeFaultText(o.ErrText) {
		t.Violation("target-runtime-fault:"+kind, describe(o))
		return
	}
	if o.Outcome == run.Accepted && bytes.Contains(o.JSON, []byte("@OUTSIDE_")) {
		t.Violation("outside-file-included:"+kind, fmt.Sprintf("include target %s: a file outside the project directory was opened and its declarations are in the catalog: %s", kind, fw.Short(o.JSON, 300)))
		return
	}
	if kind == "same-name-other-dir" && o.Outcome == run.Accepted && !(bytes.Contains(o.JSON, []byte("@fromTop")) && bytes.Contains(o.JSON, []byte("@fromSub"))) {
		t.Violation("include-resolved-against-wrong-directory", fmt.Sprintf("INCLUDE resp.jst written in sub/more.jst must name sub/resp.jst: %s", fw.Short(o.JSON, 300)))
		return
	}
	mustReject := map[string]bool{"same-name-other-dir-missing": true, "absent": true, "directory": true, "enotdir": true, "eloop": true, "dangling-symlink": true, "self": true, "cycle2": true, "cycle3": true, "jsight-in-include": true, "fifo": true, "device": true, "jsight-only-in-include": true, "jsight-in-second-include": true, "jsight-in-include-after-paren": true}
	mustAccept := map[string]bool{"same-name-other-dir": true, "case-differs": true, "deep-ok": true, "same-file-twice": true}
	switch {
	case mustReject[kind] && o.Outcome != run.Rejected:
		t.Violation("target-not-rejected:"+kind, fmt.Sprintf("include target %s must be rejected with a diagnostic, got %s; root %s", kind, describe(o), fw.Short(d.Files[d.Root], 300)))
	case mustAccept[kind] && o.Outcome != run.Accepted:
		t.Violation("target-not-accepted:"+kind+":"+run.MsgTemplate(o.Msg), fmt.Sprintf("include target %s must be accepted, got %s; root %s", kind, describe(o), fw.Short(d.Files[d.Root], 300)))
	}
	t.Distinct("target " + kind + " " + outcomeClass(o))
	t.Sample("target/"+kind, map[string]interface{}{"root": string(d.Files[d.Root]), "result": describe(o)})
}

// ---- files opened, under strace ----

// aux: jsmon aux c08opens <basedir> <tier> <seed> : runs names (every dangerous name up to length 4 plus samples), marking each case with a stat.
func c08AuxOpens(args []string) int {
	if len(args) < 3 {
		return 2
	}
	base := args[0]
	tier := args[1]
	seed, _ := strconv.ParseUint(args[2], 10, 64)
	names := c08OpenNames(tier, seed)
	tree := c08Tree()
	for name, content := range tree {
		p := filepath.Join(base, name)
		_ = os.MkdirAll(filepath.Dir(p), 0o755)
		_ = os.WriteFile(p, content, 0o644)
	}
	rootPath := filepath.Join(base, c08Proj, "root.jst")
	for i, name := range names {
		_ = os.WriteFile(rootPath, []byte("JSIGHT 0.3\nINCLUDE "+name+"\n"), 0o644)
		_, _ = os.Stat(fmt.Sprintf("/VERIF-MARK/%d", i))
		d := run.Doc{Files: map[string][]byte{}, Root: "root.jst"}
		_ = d
		o := execPath(rootPath)
		fmt.Printf("%d %s\n", i, o)
	}
	_, _ = os.Stat("/VERIF-MARK/end")
	return 0
}

func c08OpenNames(tier string, seed uint64) []string {
	var names []string
	maxLen := 4
	enumerate(c08NameSymbols, maxLen, func(s string) {
		if dangerousName(s) || len(s) <= 2 {
			names = append(names, s)
		}
	})
	r := xrand.New(seed)
	extra := 60
	if tier == "thorough" {
		extra = 3000
	}
	for i := 0; i < extra; i++ {
		l := r.Range(5, 9)
		var sb strings.Builder
		for j := 0; j < l; j++ {
			sb.WriteString(c08NameSymbols[r.Intn(len(c08NameSymbols))])
		}
		names = append(names, sb.String())
	}
	names = append(names, "\"a b\"", "\"../a\"", "\"/etc/hostname\"", "a b", "\"..\\\\a\"")
	return names
}

func execPath(path string) string {
	o := run.ExecFile(path)
	return o.Outcome
}

var straceLine = regexp.MustCompile(`^(\d+)\s+(\w+)\((?:AT_FDCWD, )?"((?:[^"\\]|\\.)*)"`)

func c08Post(d *fw.Driver) {
	if _, err := exec.LookPath("strace"); err != nil {
		d.AddInconclusive("strace not found: the 'opens' part did not run")
		return
	}
	base := filepath.Join(d.WorkDir, "opens-base")
	_ = os.MkdirAll(base, 0o755)
	logf := filepath.Join(d.WorkDir, "opens.strace")
	cmd := exec.Command("strace", "-f", "-qq", "-e", "trace=open,openat,readlink,readlinkat,stat,newfstatat,lstat,statx", "-o", logf,
		d.Self, "aux", "c08opens", base, d.Tier, strconv.FormatUint(d.Seed, 10))
	out, err := cmd.CombinedOutput()
	if err != nil {
		d.AddInconclusive(fmt.Sprintf("strace run failed: %v %s", err, fw.Short(out, 300)))
		return
	}
	names := c08OpenNames(d.Tier, d.Seed)
	f, err := os.Open(logf)
	if err != nil {
		d.AddInconclusive("strace log missing")
		return
	}
	defer f.Close()
	proj := filepath.Join(base, c08Proj)
	cur := -1
	sc := bufio.NewScanner(f)
	sc.Buffer(make([]byte, 1<<20), 1<<20)
	opens, stats, outsideStats := 0, 0, 0
	for sc.Scan() {
		m := straceLine.FindStringSubmatch(sc.Text())
		if m == nil {
			continue
		}
		call, path := m[2], m[3]
		if strings.HasPrefix(path, "/VERIF-MARK/") {
			v := strings.TrimPrefix(path, "/VERIF-MARK/")
			if v == "end" {
				cur = -2
			} else {
				cur, _ = strconv.Atoi(v)
			}
			continue
		}
		if cur < 0 {
			continue
		}
		if !filepath.IsAbs(path) {
			continue
		}
		clean := filepath.Clean(path)
		underBase := strings.HasPrefix(clean, base+"/") || clean == base
		inProj := strings.HasPrefix(clean, proj+"/") || clean == proj
		isOpen := strings.HasPrefix(call, "open") || strings.HasPrefix(call, "readlink")
		if isOpen {
			opens++
		} else {
			stats++
		}
		if !underBase && !strings.Contains(clean, "hostname") {
			continue // the Go runtime's own files
		}
		if inProj {
			continue
		}
		name := "?"
		if cur < len(names) {
			name = names[cur]
		}
		if isOpen {
			d.AddViolation("open-outside-project:"+nameShape(name), fmt.Sprintf("INCLUDE %q made the library %s %q, which is outside the project directory %s", name, call, path, proj), nil)
		} else {
			outsideStats++
		}
	}
	d.Count("driver_evaluations", int64(len(names)))
	d.Count("opens_names_run", int64(len(names)))
	d.Count("opens_open_calls_seen", int64(opens))
	d.Count("opens_stat_calls_seen", int64(stats))
	d.Count("opens_stat_outside_project_not_judged", int64(outsideStats))
	if opens == 0 {
		d.AddInconclusive("strace log shows no open call: observer not working")
	}
	d.Distinct("opens-run")
}


// ---- one file included from several places ----

// c08EvalShared: two to four hosts (URL blocks, path-bearing methods, JSON-RPC methods) have the same run of children;
// the run is written once in a file that every host includes, and compared with the text written in place in each host.
func c08EvalShared(t *fw.T, c *fw.Case) {
	r := xrand.Derive(t.Seed, c.Index, "C08", "shared")
	type snip struct{ level, text string }
	urlKids := []string{
		"GET\n  Path\n  {\n    \"id\": 1\n  }\n  200 any\n",
		"GET\n  200 any\nPOST\n  Request any\n  201 any\n",
		"DELETE\n  Description\n    removes it\n  204 empty\n",
		"Path\n{\n  \"id\": 7 // the id\n}\n",
		"GET\n  Query\n  {\"q\": 1}\n  200\n  {\"ok\": true}\n",
	}
	methodKids := []string{
		"200 any\n404 any\n",
		"Path\n{\n  \"id\": 1\n}\n200 any\n",
		"Description\n  shared text\n200 any\n",
		"Request\n  Headers\n  {\"h\": \"v\"}\n  Body any\n200\n  Headers\n  {\"x\": 1}\n  Body any\n",
		"Query\n{\"q\": 1}\n200 @sharedT\n",
	}
	rpcKids := []string{"Params\n{\"p\": 1}\nResult\n{\"r\": 2}\n", "Description\n  shared text\nParams\n[1]\n"}
	n := r.Range(2, 4)
	kind := r.Intn(3)
	var body string
	switch kind {
	case 0:
		body = urlKids[r.Intn(len(urlKids))]
	case 1:
		body = methodKids[r.Intn(len(methodKids))]
	default:
		body = rpcKids[r.Intn(len(rpcKids))]
	}
	indent := func(text, pad string) string {
		var sb strings.Builder
		for _, l := range strings.Split(strings.TrimRight(text, "\n"), "\n") {
			sb.WriteString(pad + l + "\n")
		}
		return sb.String()
	}
	dir := []string{"", "parts/", "a/b/"}[r.Intn(3)]
	var whole, cut strings.Builder
	whole.WriteString("JSIGHT 0.3\nTYPE @sharedT any\n")
	cut.WriteString("JSIGHT 0.3\nTYPE @sharedT any\n")
	verbs := []string{"GET", "POST", "PUT", "PATCH"}
	for i := 0; i < n; i++ {
		var head, pad string
		switch kind {
		case 0:
			head, pad = fmt.Sprintf("URL /h%d/{id}\n", i), "  "
			if r.Chance(1, 3) {
				head = fmt.Sprintf("URL /shared/{id}/s%d\n", i) // the hosts share the parameterised prefix
			}
		case 1:
			head, pad = fmt.Sprintf("%s /m/{id}/x%d\n", verbs[i%4], i/4), "  "
			if r.Chance(1, 3) {
				head = fmt.Sprintf("%s /same/{id}\n", verbs[i%4])
			}
		default:
			head, pad = fmt.Sprintf("URL /rpc%d\n  Protocol json-rpc-2.0\n  Method m%d\n", i, i), "    "
		}
		whole.WriteString(head + indent(body, pad))
		inc := "INCLUDE " + dir + "shared.jst"
		if r.Bool() {
			inc = "INCLUDE \"" + dir + "shared.jst\""
		}
		cut.WriteString(head + pad + inc + "\n")
	}
	nl := []string{"\n", "\n", "\r\n", "\r"}[r.Intn(4)]
	conv := func(x string) []byte { return []byte(strings.ReplaceAll(x, "\n", nl)) }
	dw := run.Single(conv(whole.String()))
	dw.FixedSeed = true
	dc := run.Doc{Files: map[string][]byte{"root.jst": conv(cut.String()), dir + "shared.jst": conv(indent(body, []string{"", "  ", "\t"}[r.Intn(3)]))}, Root: "root.jst", FixedSeed: true}
	c.Docs = []run.Doc{dc, dw}
	oc, ow := t.Exec(dc), t.Exec(dw)
	t.Count("cuts_compared")
	t.Count("shared_file_projects_compared")
	if oc.Outcome == run.Panic || oc.Outcome == run.Budget {
		t.Violation("cut-form-crashes:"+outcomeSig(oc), fmt.Sprintf("the cut project %s: %s", oc.Outcome, oc.PanicVal))
		return
	}
	if oc.Outcome != ow.Outcome {
		t.Violation("verdict-differs:"+oc.Outcome+"-vs-"+ow.Outcome+":"+rejMsg(oc, ow), fmt.Sprintf("one file included from %d places: %s\nthe same text written in place: %s\n--- root\n%s--- shared.jst\n%s", n, describe(oc), describe(ow), cut.String(), body))
		return
	}
	if oc.Outcome == run.Accepted && !bytes.Equal(oc.JSON, ow.JSON) {
		cls, where := "?", ""
		a, e1 := jsonx.Parse(oc.JSON)
		b, e2 := jsonx.Parse(ow.JSON)
		if e1 == nil && e2 == nil {
			where = jsonx.Diff(a.Root, b.Root, "$")
			cls = diffClass(where)
		}
		t.Violation("catalog-differs:"+cls, fmt.Sprintf("one file included from %d places differs from the text written in place: %s\n--- root\n%s--- shared.jst\n%s", n, where, cut.String(), body))
		return
	}
	t.Count("shared_" + oc.Outcome)
	t.Distinct(fmt.Sprintf("shared kind%d n%d %s", kind, n, oc.Outcome))
}
