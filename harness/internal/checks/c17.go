package checks

import (
	"unicode/utf8"
	"fmt"
	"strings"

	"verifharness/internal/fw"
	"verifharness/internal/jsonx"
	"verifharness/internal/run"
	"verifharness/internal/xrand"
)

var c17Alphabet = []string{"\\", "\"", "#", "/", "*", " ", "\t", "@", "[", "a", "é"}

var c17Hosts = []string{"title", "version", "baseurl", "query", "path", "method"}

func init() {
	fw.Register(&fw.Check{
		ID:    "C17",
		Level: "exploration",
		Rule: "strings over the alphabet {\\ \" # / * space tab @ [ a é}: (1) 'escaped': every string s up to the length bound is written as \"escape(s)\" in a parameter host and the catalog field must equal s; " +
			"(2) 'raw': every string t up to the bound (without an unescaped quote inside) is written raw between quotes and a reference tokenizer predicts accepted-with-value / rejected at the bad escape / rejected as unterminated; " +
			"(3) 'bare': every s that needs no quotes must mean the same quoted and bare. Hosts: Title, Version, BaseUrl, Query example, path, JSON-RPC method name (all hosts for short strings, one host chosen by index for longer ones); plus random longer strings. " +
			"distinct_nontrivial = distinct (host, family, outcome, string shape) where shape maps bytes to classes",
		Assumptions: []string{
			"'rejected at that byte' is accepted at the backslash or the byte after it (bad escape), and at the opening quote or the line end (unterminated quote)",
			"the empty string is excluded: an empty required parameter is legitimately 'not specified'",
		},
		Exhaustive: true,
		Families: []fw.Family{
			{Name: "escaped", Stream: c17StreamEscaped, Eval: c17Eval},
			{Name: "raw", Stream: c17StreamRaw, Eval: c17Eval},
			{Name: "random", N: constN(20000, 400000), Gen: c17GenRandom, Eval: c17Eval},
			{Name: "braced-paths", Stream: c17StreamBraces, Eval: c17EvalBraces},
			{Name: "directive-params", N: func(string) int { return 3 * len(c17Templates) }, Gen: func(r *xrand.Rand, idx int, tier string) *fw.Case {
				return &fw.Case{Meta: map[string]string{"kind": "template"}, Ints: map[string]int{"t": idx}, Docs: []run.Doc{{}}}
			}, Eval: c17EvalTemplate},
		},
		Floors: map[string]int64{"roundtrips_checked": 10000, "error_positions_checked": 2000},
	})
}

func c17Escape(s string) string {
	s = strings.ReplaceAll(s, "\\", "\\\\")
	return strings.ReplaceAll(s, "\"", "\\\"")
}

// c17Doc renders the host document around the parameter text p (already quoted or bare) and returns the offset of p.
func c17Doc(host, p string) (string, int) {
	var pre, post string
	switch host {
	case "title":
		pre, post = "JSIGHT 0.3\nINFO\n  Title ", "\n"
	case "version":
		pre, post = "JSIGHT 0.3\nINFO\n  Title \"t\"\n  Version ", "\n"
	case "baseurl":
		pre, post = "JSIGHT 0.3\nSERVER @s\n  BaseUrl ", "\n"
	case "query":
		pre, post = "JSIGHT 0.3\nGET /q\n  Query ", "\n  {}\n  200 any\n"
	case "path":
		pre, post = "JSIGHT 0.3\nGET ", "\n  200 any\n"
	case "method":
		pre, post = "JSIGHT 0.3\nURL /r\n  Protocol json-rpc-2.0\n  Method ", "\n    Params\n    {}\n"
	}
	return pre + p + post, len(pre)
}

// c17Field extracts the catalog field of a host.
func c17Field(host string, root *jsonx.Node) (string, bool) {
	switch host {
	case "title":
		n := root.Get("info").Get("title")
		return n.S(), n != nil
	case "version":
		n := root.Get("info").Get("version")
		return n.S(), n != nil
	case "baseurl":
		n := root.Get("servers").Get("@s").Get("baseUrl")
		return n.S(), n != nil
	case "query", "path", "method":
		in := root.Get("interactions")
		if in == nil || len(in.Vals) != 1 {
			return "", false
		}
		v := in.Vals[0]
		switch host {
		case "query":
			n := v.Get("query").Get("example")
			return n.S(), n != nil
		case "path":
			n := v.Get("path")
			return n.S(), n != nil
		default:
			n := v.Get("method")
			return n.S(), n != nil
		}
	}
	return "", false
}

func shapeOf(s string) string {
	var sb strings.Builder
	for _, c := range []byte(s) {
		switch {
		case c == '\\':
			sb.WriteByte('B')
		case c == '"':
			sb.WriteByte('Q')
		case c == ' ' || c == '\t':
			sb.WriteByte('_')
		case c >= 0x80:
			sb.WriteByte('U')
		case c >= 'a' && c <= 'z':
			sb.WriteByte('a')
		default:
			sb.WriteByte(c)
		}
	}
	return sb.String()
}

// hostValue maps the abstract string to the value the host really carries (paths must start with '/').
func hostValue(host, s string) string {
	if host == "path" {
		return "/" + s
	}
	return s
}

func validForHost(host, v string) bool {
	if v == "" {
		return false
	}
	if host == "query" && (v == "htmlFormEncoded" || v == "noFormat") {
		return false
	}
	if strings.ContainsAny(v, "\n\r\x00") {
		return false
	}
	if host == "path" && strings.ContainsAny(v, "{}") {
		return false
	}
	return true
}

func mkC17(kind, host, s string) *fw.Case {
	return &fw.Case{Meta: map[string]string{"kind": kind, "host": host, "s": s}, Docs: []run.Doc{{}}}
}

func enumerate(alpha []string, maxLen int, f func(s string)) {
	var rec func(prefix string, depth int)
	rec = func(prefix string, depth int) {
		if depth > 0 {
			f(prefix)
		}
		if depth == maxLen {
			return
		}
		for _, a := range alpha {
			rec(prefix+a, depth+1)
		}
	}
	rec("", 0)
}

func c17StreamEscaped(t *fw.T, shard, nshards int, emit func(*fw.Case)) {
	maxLen := t.Pick(5, 6)
	allHostsLen := t.Pick(3, 4)
	n := 0
	enumerate(c17Alphabet, maxLen, func(s string) {
		n++
		if n%nshards != shard {
			emit(nil)
			return
		}
		if len([]rune(s)) <= allHostsLen {
			for _, h := range c17Hosts {
				emit(mkC17("escaped", h, s))
			}
		} else {
			emit(mkC17("escaped", c17Hosts[n%len(c17Hosts)], s))
		}
	})
}

func c17StreamRaw(t *fw.T, shard, nshards int, emit func(*fw.Case)) {
	maxLen := t.Pick(5, 6)
	n := 0
	enumerate(c17Alphabet, maxLen, func(s string) {
		n++
		if n%nshards != shard {
			emit(nil)
			return
		}
		emit(mkC17("raw", c17Hosts[n%len(c17Hosts)], s))
	})
	// a backslash in front of bytes that are not characters of their own (UTF-8 continuation and lead bytes, 0xFF):
	// rejected at that byte like any other wrong escape
	enumerate([]string{"\\", "a", "\xa9", "\xc3", "\xff", "\x80", "é"}, 4, func(s string) {
		n++
		if n%nshards != shard {
			emit(nil)
			return
		}
		if _, why, _ := rawPredict(s); why != "bad-escape" || utf8.ValidString(s) {
			emit(nil)
			return
		}
		emit(mkC17("raw", c17Hosts[n%len(c17Hosts)], s))
	})
}

func c17GenRandom(r *xrand.Rand, idx int, tier string) *fw.Case {
	l := r.Range(5, 40)
	var sb strings.Builder
	for i := 0; i < l; i++ {
		if r.Chance(1, 5) {
			sb.WriteString([]string{"b", "Z", "0", "-", ".", ":", "?", "=", "&", "é", "日", "(", ")", "]", "|"}[r.Intn(15)])
		} else {
			sb.WriteString(c17Alphabet[r.Intn(len(c17Alphabet))])
		}
	}
	kind := "escaped"
	if idx%3 == 0 {
		kind = "raw"
	}
	return mkC17(kind, c17Hosts[r.Intn(len(c17Hosts))], sb.String())
}

// rawPredict tokenizes t as the inside of a quoted parameter.
// It returns (value, "", -1) when well formed, or ("", "bad-escape", pos) / ("", "unterminated", -1) / ("", "inner-quote", pos).
func rawPredict(t string) (string, string, int) {
	var out []byte
	b := []byte(t)
	for i := 0; i < len(b); i++ {
		switch b[i] {
		case '\\':
			if i+1 >= len(b) {
				return "", "unterminated", -1 // escapes the closing quote
			}
			if b[i+1] != '\\' && b[i+1] != '"' {
				return "", "bad-escape", i
			}
			out = append(out, b[i+1])
			i++
		case '"':
			return "", "inner-quote", i
		default:
			out = append(out, b[i])
		}
	}
	return string(out), "", -1
}

var (
	c17EscapeOffset = -1
	c17EscapeFirst  string
)

func c17Eval(t *fw.T, c *fw.Case) {
	kind, host, s := c.Meta["kind"], c.Meta["host"], c.Meta["s"]
	switch kind {
	case "escaped":
		v := hostValue(host, s)
		if !validForHost(host, v) {
			t.Count("skipped_invalid_for_host")
			return
		}
		doc, _ := c17Doc(host, "\""+c17Escape(v)+"\"")
		c.Docs[0] = run.Single([]byte(doc))
		o := t.Exec(c.Docs[0])
		c17ExpectValue(t, c, o, host, v, "escaped")
		c17Reread(t, c, o, doc, host)
		// bare spelling when no quotes are needed
		if needsNoQuotes(v) {
			bdoc, _ := c17Doc(host, v)
			ob := t.Exec(run.Single([]byte(bdoc)))
			t.Count("bare_checked")
			if ob.Outcome != o.Outcome || string(ob.JSON) != string(o.JSON) {
				t.Violation("bare-vs-quoted:"+host, fmt.Sprintf("value %q means something else bare than quoted in host %s: bare %s | quoted %s", v, host, describe(ob), describe(o)))
			}
		}
	case "raw":
		if strings.ContainsAny(s, "\n\r\x00") {
			return
		}
		val, problem, pos := rawPredict(s)
		if problem == "inner-quote" {
			t.Count("skipped_inner_quote")
			return
		}
		text := s
		if host == "path" {
			text = "/" + s
			pos++
			val = "/" + val
		}
		doc, off := c17Doc(host, "\""+text+"\"")
		// the same document with CRLF or CR line ends: the positions move with the line ends in front of them
		switch c.Index % 3 {
		case 1:
			off += strings.Count(doc[:off], "\n")
			doc = strings.ReplaceAll(doc, "\n", "\r\n")
		case 2:
			doc = strings.ReplaceAll(doc, "\n", "\r")
		}
		c.Docs[0] = run.Single([]byte(doc))
		o := t.Exec(c.Docs[0])
		switch problem {
		case "":
			if !validForHost(host, val) {
				t.Count("skipped_invalid_for_host")
				return
			}
			c17ExpectValue(t, c, o, host, val, "raw")
			c17Reread(t, c, o, doc, host)
		case "bad-escape":
			t.Count("error_positions_checked")
			at := off + 1 + pos
			if o.Outcome != run.Rejected {
				t.Violation("bad-escape-accepted:"+host, fmt.Sprintf("a backslash before a byte other than backslash or quote (in %q) must be rejected; got %s; input %s", s, describe(o), fw.Short([]byte(doc), 300)))
			} else if int(o.Index) != at && int(o.Index) != at+1 {
				t.Violation("bad-escape-position:"+host, fmt.Sprintf("bad escape at byte %d (backslash) is reported at index %d: %s; input %s", at, o.Index, describe(o), fw.Short([]byte(doc), 300)))
			} else {
				// "at that byte" may be read as the backslash or as the byte it stands before: whichever it is, it is the
				// same for every wrong escape (the first one seen in this process sets the convention)
				off := int(o.Index) - at
				if c17EscapeOffset < 0 {
					c17EscapeOffset, c17EscapeFirst = off, s
				} else if off != c17EscapeOffset {
					t.Violation("bad-escape-position-inconsistent", fmt.Sprintf("wrong escapes are located inconsistently: in %q at the backslash+%d, in %q at the backslash+%d: %s; input %s", c17EscapeFirst, c17EscapeOffset, s, off, describe(o), fw.Short([]byte(doc), 300)))
				}
			}
			t.Distinct(host + " raw bad-escape " + shapeOf(s))
		case "unterminated":
			t.Count("error_positions_checked")
			eol := off + len(text) + 2
			if o.Outcome != run.Rejected {
				t.Violation("unterminated-accepted:"+host, fmt.Sprintf("an unterminated quoted parameter must be rejected; got %s; input %s", describe(o), fw.Short([]byte(doc), 300)))
			} else if int(o.Index) != off && int(o.Index) != eol {
				t.Violation("unterminated-position:"+host, fmt.Sprintf("unterminated quote opened at byte %d (line ends at %d) is reported at index %d: %s; input %s", off, eol, o.Index, describe(o), fw.Short([]byte(doc), 300)))
			}
			t.Distinct(host + " raw unterminated " + shapeOf(s))
		}
	}
}

// c17Reread: reading a value must not change what is written: the caller's bytes are the same after the call and a
// second read of the very same file object gives the same value.
func c17Reread(t *fw.T, c *fw.Case, first *run.Obs, doc, host string) {
	if got := string(c.Docs[0].Files[c.Docs[0].Root]); got != doc {
		t.Violation("source-bytes-modified:"+host, fmt.Sprintf("reading the document changed the caller's bytes:\n  before %q\n  after  %q", doc, got))
		return
	}
	if c.Index%4 != 0 {
		return
	}
	again := t.Exec(c.Docs[0])
	t.Count("rereads_checked")
	if again.Outcome != first.Outcome || string(again.JSON) != string(first.JSON) {
		t.Violation("reread-differs:"+host, fmt.Sprintf("the same file read twice gives two results: first %s | second %s; input %q", describe(first), describe(again), doc))
	}
}

func boolInt(b bool) int {
	if b {
		return 1
	}
	return 0
}

func needsNoQuotes(v string) bool {
	if v == "" || strings.ContainsAny(v, " \t#\"\\") {
		return false
	}
	if strings.HasPrefix(v, "//") || strings.HasPrefix(v, "/*") {
		return false
	}
	return true
}

func c17ExpectValue(t *fw.T, c *fw.Case, o *run.Obs, host, want, fam string) {
	t.Count("roundtrips_checked")
	doc := c.Docs[0].Files["root.jst"]
	if o.Outcome != run.Accepted {
		t.Violation("valid-quoted-rejected:"+host+":"+run.MsgTemplate(o.Msg), fmt.Sprintf("a correctly quoted value %q is not accepted in host %s: %s; input %s", want, host, describe(o), fw.Short(doc, 300)))
		return
	}
	d, err := jsonx.Parse(o.JSON)
	if err != nil {
		t.Violation("json-unparseable", err.Error())
		return
	}
	got, ok := c17Field(host, d.Root)
	// invalid UTF-8 cannot survive JSON; the alphabet has none, random strings may (they do not here)
	if !ok || got != want {
		t.Violation("roundtrip:"+host+":"+c17RoundtripClass(want, got), fmt.Sprintf("host %s: wrote %q, catalog has %q (present=%v); input %s", host, want, got, ok, fw.Short(doc, 300)))
		return
	}
	t.Distinct(host + " " + fam + " ok " + shapeOf(want))
	t.Sample(fam+"/"+host, map[string]interface{}{"written": string(doc), "catalog_value": got})
}

func c17RoundtripClass(want, got string) string {
	switch {
	case strings.HasPrefix(got, "\"") && strings.HasSuffix(got, "\"") && len(got) >= 2 && !strings.HasPrefix(want, "\""):
		return "quotes-kept"
	case len(got) < len(want):
		return "shorter"
	case len(got) > len(want):
		return "longer"
	}
	return "different"
}

// c17Templates: every parameter-taking directive with a parameter that needs no quotes; %s is written bare and quoted.
var c17Templates = [][2]string{
	{"JSIGHT %s\n", "0.3"},
	{"JSIGHT 0.3\nTYPE %s any\n", "@t"},
	{"JSIGHT 0.3\nTYPE @t %s\n", "any"},
	{"JSIGHT 0.3\nTYPE @t %s\n", "empty"},
	{"JSIGHT 0.3\nTYPE @t %s\n/ab/\n", "regex"},
	{"JSIGHT 0.3\nTYPE @t %s\n{\"a\": 1}\n", "jsight"},
	{"JSIGHT 0.3\nENUM %s\n[1, 2]\n", "@e"},
	{"JSIGHT 0.3\nSERVER %s\n  BaseUrl \"https://a/\"\n", "@s"},
	{"JSIGHT 0.3\nMACRO %s\n(\n  TYPE @x any\n)\nPASTE @m\n", "@m"},
	{"JSIGHT 0.3\nMACRO @m\n(\n  TYPE @x any\n)\nPASTE %s\n", "@m"},
	{"JSIGHT 0.3\nTAG %s\nGET /a\n  Tags @g\n  200 any\n", "@g"},
	{"JSIGHT 0.3\nTAG @g\nGET /a\n  Tags %s\n  200 any\n", "@g"},
	{"JSIGHT 0.3\nTAG @g\nTAG @h\nGET /a\n  Tags @g %s\n  200 any\n", "@h"},
	{"JSIGHT 0.3\nURL %s\n  GET\n    200 any\n", "/a/{id}"},
	{"JSIGHT 0.3\nGET %s\n  200 any\n", "/a/b"},
	{"JSIGHT 0.3\nTYPE @t any\nPOST /a\n  Request %s\n", "any"},
	{"JSIGHT 0.3\nTYPE @t any\nPOST /a\n  Request %s\n", "empty"},
	{"JSIGHT 0.3\nTYPE @t\n1\nPOST /a\n  Request %s\n", "@t"},
	{"JSIGHT 0.3\nTYPE @t\n1\nPOST /a\n  Request %s\n", "[@t]"},
	{"JSIGHT 0.3\nPOST /a\n  Request %s\n  /ab/\n", "regex"},
	{"JSIGHT 0.3\nPOST /a\n  Request %s\n  {\"a\": 1}\n", "jsight"},
	{"JSIGHT 0.3\nGET /a\n  200 %s\n", "any"},
	{"JSIGHT 0.3\nGET /a\n  200 %s\n", "empty"},
	{"JSIGHT 0.3\nTYPE @t\n1\nGET /a\n  200 %s\n", "@t"},
	{"JSIGHT 0.3\nTYPE @t\n1\nGET /a\n  200 %s\n", "[@t]"},
	{"JSIGHT 0.3\nGET /a\n  200 %s\n  /ab/\n", "regex"},
	{"JSIGHT 0.3\nGET /a\n  200 %s\n  {\"a\": 1}\n", "jsight"},
	{"JSIGHT 0.3\nGET /a\n  200\n    Body %s\n", "any"},
	{"JSIGHT 0.3\nTYPE @t\n1\nGET /a\n  200\n    Body %s\n", "@t"},
	{"JSIGHT 0.3\nGET /a\n  200\n    Body %s\n    /ab/\n", "regex"},
	{"JSIGHT 0.3\nPOST /a\n  Request\n    Body %s\n    /ab/\n", "regex"},
	{"JSIGHT 0.3\nGET /a\n  Query %s\n  {}\n", "htmlFormEncoded"},
	{"JSIGHT 0.3\nGET /a\n  Query %s\n  {}\n", "noFormat"},
	{"JSIGHT 0.3\nGET /a\n  Query %s noFormat\n  {}\n", "a=1&b=2"},
	{"JSIGHT 0.3\nURL /r\n  Protocol %s\n  Method m\n    Params\n    {}\n", "json-rpc-2.0"},
	{"JSIGHT 0.3\nURL /r\n  Protocol json-rpc-2.0\n  Method %s\n    Params\n    {}\n", "m.n"},
	{"JSIGHT 0.3\nINFO\n  Title %s\n", "T"},
	{"JSIGHT 0.3\nINFO\n  Title T\n  Version %s\n", "1.0"},
	{"JSIGHT 0.3\nSERVER @s\n  BaseUrl %s\n", "https://a.b/c"},
}

func c17EvalTemplate(t *fw.T, c *fw.Case) {
	tp := c17Templates[c.Ints["t"]%len(c17Templates)]
	// each template also with something after it (a parameter at the very end of the input is a special case for a scanner)
	switch c.Ints["t"] / len(c17Templates) {
	case 1:
		tp[0] += "GET /zz\n  200 any\n"
	case 2:
		tp[0] += "# comment\n\nTYPE @zz any\n"
	}
	bare := strings.Replace(tp[0], "%s", tp[1], 1)
	quoted := strings.Replace(tp[0], "%s", "\""+tp[1]+"\"", 1)
	db, dq := run.Single([]byte(bare)), run.Single([]byte(quoted))
	db.FixedSeed, dq.FixedSeed = true, true
	c.Docs = []run.Doc{db, dq}
	ob, oq := t.Exec(db), t.Exec(dq)
	t.Count("bare_checked")
	t.Count("directive_params_checked")
	if ob.Outcome != run.Accepted {
		t.Violation("template-rejected", fmt.Sprintf("harness template is not accepted bare: %s\n%s", describe(ob), bare))
		return
	}
	if oq.Outcome != ob.Outcome || string(oq.JSON) != string(ob.JSON) {
		key := strings.Fields(strings.Split(tp[0], "%s")[0])
		kw := key[len(key)-1]
		if len(key) >= 2 && !strings.HasSuffix(strings.Split(tp[0], "%s")[0], kw+" ") {
			kw = key[len(key)-2]
		}
		t.Violation("bare-vs-quoted-directive:"+tp[1], fmt.Sprintf("parameter %q means something else in quotes: bare %s | quoted %s\n--- quoted document\n%s", tp[1], describe(ob), describe(oq), quoted))
		return
	}
	// the blanks between the keyword (or the previous parameter) and the parameter are separators, whatever their kind
	// and number: the value is the same
	if at := strings.Index(tp[0], "%s"); at > 0 && tp[0][at-1] == ' ' {
		for _, sep := range []string{"\t", "  ", " \t", "\t\t", "\t ", " \t \t"} {
			for _, val := range []string{tp[1], "\"" + tp[1] + "\""} {
				doc := tp[0][:at-1] + sep + val + tp[0][at+2:]
				d := run.Single([]byte(doc))
				d.FixedSeed = true
				o := t.Exec(d)
				t.Count("separator_variants_checked")
				if o.Outcome != ob.Outcome || string(o.JSON) != string(ob.JSON) {
					c.Docs = []run.Doc{db, d}
					t.Violation("separator-changes-value:"+strings.NewReplacer(" ", "S", "\t", "T").Replace(sep), fmt.Sprintf("parameter %s after the blanks %q is read differently: one blank %s | these blanks %s\n--- document\n%s", val, sep, describe(ob), describe(o), doc))
					return
				}
			}
		}
	}
	t.Distinct("template " + tp[0][:min(len(tp[0]), 40)] + tp[1])
}


// ---- quoted paths with {parameter} segments: the name is what stands between the braces, byte for byte ----

var c17BraceSymbols = []string{"a", "b", " ", "\t", "é"}

func c17StreamBraces(t *fw.T, shard, nshards int, emit func(*fw.Case)) {
	var names []string
	enumerate(c17BraceSymbols, 3, func(s string) { names = append(names, s) })
	n := 0
	for _, a := range names {
		n++
		if n%nshards == shard {
			emit(&fw.Case{Meta: map[string]string{"a": a, "b": ""}, Docs: []run.Doc{{}}})
		} else {
			emit(nil)
		}
		if len([]rune(a)) > t.Pick(2, 3) {
			continue
		}
		for _, b := range names {
			if len([]rune(b)) > t.Pick(2, 3) {
				continue
			}
			n++
			if n%nshards == shard {
				emit(&fw.Case{Meta: map[string]string{"a": a, "b": b}, Docs: []run.Doc{{}}})
			} else {
				emit(nil)
			}
		}
	}
}

func c17EvalBraces(t *fw.T, c *fw.Case) {
	a, b := c.Meta["a"], c.Meta["b"]
	path := "/x/{" + a + "}"
	if b != "" {
		path += "/y/{" + b + "}"
	}
	hostDocs := []string{
		"JSIGHT 0.3\nGET " + quoteParam(path) + "\n  200 any\n",
		"JSIGHT 0.3\nURL " + quoteParam(path) + "\n  POST\n    Request any\n    200 any\n",
		"JSIGHT 0.3\nURL " + quoteParam(path) + "\n  Protocol json-rpc-2.0\n  Method m\n    Params\n    {}\n",
	}
	keys := []string{"http GET " + path, "http POST " + path, "json-rpc-2.0 m " + path}
	k := int(xrand.HashStr(a+"|"+b) % 3)
	d := run.Single([]byte(hostDocs[k]))
	c.Docs = []run.Doc{d}
	o := t.Exec(d)
	t.Count("roundtrips_checked")
	t.Count("braced_paths_checked")
	if a == b { // the same name twice in one path
		if o.Outcome != run.Rejected {
			t.Violation("braces:duplicate-accepted", fmt.Sprintf("path %q repeats the parameter %q, result %s", path, a, describe(o)))
		}
		return
	}
	if o.Outcome != run.Accepted {
		t.Violation("braces:valid-path-rejected:"+run.MsgTemplate(o.Msg), fmt.Sprintf("path %q (parameters %q and %q differ) is not accepted: %s", path, a, b, describe(o)))
		return
	}
	doc, err := jsonx.Parse(o.JSON)
	if err != nil {
		return
	}
	iv := doc.Root.Get("interactions").Get(keys[k])
	if iv == nil || iv.Get("path").S() != path {
		t.Violation("braces:roundtrip", fmt.Sprintf("path %q is not in the catalog as written (key %q)", path, keys[k]))
		return
	}
	t.Distinct("braces " + shapeOf(a) + "|" + shapeOf(b))
}
