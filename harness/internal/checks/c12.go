package checks

import (
	"fmt"
	"strings"

	"verifharness/internal/fw"
	"verifharness/internal/gen"
	"verifharness/internal/jsonx"
	"verifharness/internal/run"
	"verifharness/internal/xrand"
)

func init() {
	fw.Register(&fw.Check{
		ID:    "C12",
		Level: "exploration",
		Rule: "random inheritance graphs over object user types (chains, several bases, bases shared between types, nested objects with their own allOf, depth up to the bound), used from user types, request and response bodies, request and response headers, Query, Path and JSON-RPC Params/Result schemas, " +
			"each rendered in several declaration orders; in every accepted document the children of every object that has an allOf rule must be the reference list: for each named base in order its flattened properties (each key once) marked with that directly named base, then the own properties; " +
			"the base types' own entries must be as declared. The whole catalog is compared with the projection of the model (used-type lists and examples excluded: the former are C10's recorded finding, the latter are not part of the statement). " +
			"Faulty variants: overriding an inherited property, a base that is not an object, an undefined base, must be rejected. distinct_nontrivial = distinct (graph shape, hosts using allOf, outcome)",
		Assumptions: []string{
			"graphs in which one property would arrive through two routes (diamonds) are rejected by the schema dependency ('Duplicate keys'); they are counted, the statement only speaks of accepted documents",
		},
		Families: []fw.Family{
			{Name: "graphs", N: constN(1500, 50000), Gen: genModelCase, Eval: c12Eval},
		},
		Floors: map[string]int64{"catalogs_compared": 2500, "allof_nodes_checked": 5000},
	})
}

// c12Model builds types T0..Tn-1 (a DAG: a type inherits only from earlier ones) and hosts that use allOf.
func c12Model(r *xrand.Rand, maxTypes, maxDepth int) (*gen.Model, string) {
	n := r.Range(2, maxTypes)
	var types, keyTypes []*gen.Block
	depth := make([]int, n)
	uid := 0
	prop := func(prefix string) *gen.SProp {
		uid++
		var node *gen.SNode
		switch r.Intn(5) {
		case 0:
			node = &gen.SNode{Kind: "string", Val: "v"}
		case 1:
			node = &gen.SNode{Kind: "bool", Val: "true"}
		case 2:
			node = &gen.SNode{Kind: "null", Val: "null", Optional: true}
		default:
			node = &gen.SNode{Kind: "int", Val: fmt.Sprint(uid)}
		}
		if r.Chance(1, 5) {
			node.Note = "note"
		}
		return &gen.SProp{Key: fmt.Sprintf("%sk%d", prefix, uid), Node: node}
	}
	// ancestors[i]: the set of types reachable from i through allOf (to avoid diamonds most of the time)
	anc := make([]map[int]bool, n)
	pickBases := func(limit int, allowShared bool) []int {
		if limit == 0 || r.Chance(1, 3) {
			return nil
		}
		k := r.Range(1, 2)
		var out []int
		seen := map[int]bool{}
		for i := 0; i < k; i++ {
			b := r.Intn(limit)
			if depth[b] >= maxDepth {
				continue
			}
			clash := seen[b]
			for x := range anc[b] {
				if seen[x] {
					clash = true
				}
			}
			for _, o := range out {
				if anc[o][b] || anc[b][o] {
					clash = true
				}
				for x := range anc[o] {
					if anc[b][x] {
						clash = true
					}
				}
			}
			if clash && !allowShared {
				continue
			}
			out = append(out, b)
			seen[b] = true
			for x := range anc[b] {
				seen[x] = true
			}
		}
		return out
	}
	names := func(idx []int) []string {
		var out []string
		for _, i := range idx {
			out = append(out, fmt.Sprintf("@T%d", i))
		}
		return out
	}
	shape := ""
	twinned := map[int]bool{}
	for i := 0; i < n; i++ {
		anc[i] = map[int]bool{}
		bases := pickBases(i, r.Chance(1, 12))
		sc := &gen.SNode{Kind: "object", AllOf: names(bases)}
		nprops := r.Range(1, 3)
		if len(bases) > 0 && r.Chance(1, 4) {
			nprops = 0 // a type that only inherits: {} // {allOf: …}
		}
		for k := nprops; k > 0; k-- {
			sc.Props = append(sc.Props, prop(fmt.Sprintf("t%d", i)))
		}
		if r.Chance(1, 5) { // a property whose key is a user-type reference (@K : value), one key type per declaring type
			uid++
			sc.Props = append(sc.Props, &gen.SProp{Key: fmt.Sprintf("@K%d", i), KeyRef: true, Node: &gen.SNode{Kind: "int", Val: fmt.Sprint(uid)}})
			keyTypes = append(keyTypes, &gen.Block{Kind: "type", Name: fmt.Sprintf("@K%d", i), Notation: "jsight", Schema: &gen.SNode{Kind: "string", Val: fmt.Sprintf("key%d", i)}})
			if r.Bool() { // ... and a property whose literal key has the same text: two different properties
				sc.Props = append(sc.Props, &gen.SProp{Key: fmt.Sprintf("@K%d", i), Node: &gen.SNode{Kind: "string", Val: fmt.Sprintf("lit%d", i)}})
			}
		}
		if len(bases) > 0 && r.Chance(1, 6) && !twinned[bases[0]] { // a name that differs from an inherited one by a blank only: another property
			twinned[bases[0]] = true
			if bt := types[bases[0]].Schema; len(bt.Props) > 0 && !bt.Props[0].KeyRef {
				pad := []string{" ", "  "}[r.Intn(2)]
				k := bt.Props[0].Key + pad
				if r.Bool() {
					k = pad + bt.Props[0].Key
				}
				uid++
				sc.Props = append(sc.Props, &gen.SProp{Key: k, Node: &gen.SNode{Kind: "int", Val: fmt.Sprint(uid)}})
			}
		}
		if r.Chance(1, 4) && i > 0 { // a nested object with its own allOf
			nb := pickBases(i, false)
			var ok []int
			for _, b := range nb { // the nested object must not clash with the outer bases either (separate object: no clash possible)
				ok = append(ok, b)
			}
			nested := &gen.SNode{Kind: "object", AllOf: names(ok), Props: []*gen.SProp{prop(fmt.Sprintf("t%dn", i))}}
			if len(ok) > 0 && r.Chance(1, 3) {
				nested.Props = nil // a property value that only inherits: { // {allOf: …} }
			}
			uid++
			sc.Props = append(sc.Props, &gen.SProp{Key: fmt.Sprintf("t%dnested%d", i, uid), Node: nested})
		}
		if r.Chance(1, 4) && i > 0 { // an array whose item is an object with its own allOf
			nb := pickBases(i, false)
			item := &gen.SNode{Kind: "object", AllOf: names(nb), Props: []*gen.SProp{prop(fmt.Sprintf("t%da", i))}}
			if len(nb) > 0 && r.Chance(1, 3) {
				item.Props = nil // an array item that only inherits
			}
			uid++
			sc.Props = append(sc.Props, &gen.SProp{Key: fmt.Sprintf("t%dlist%d", i, uid), Node: &gen.SNode{Kind: "array", Items: []*gen.SNode{item}}})
		}
		for _, b := range bases {
			anc[i][b] = true
			for x := range anc[b] {
				anc[i][x] = true
			}
			if depth[b]+1 > depth[i] {
				depth[i] = depth[b] + 1
			}
		}
		shape += fmt.Sprintf("%d", len(bases))
		types = append(types, &gen.Block{Kind: "type", Name: fmt.Sprintf("@T%d", i), Notation: "jsight", Schema: sc})
	}
	host := func(prefix string) *gen.SNode {
		b := pickBases(n, false)
		if len(b) == 0 {
			b = []int{r.Intn(n)}
		}
		return &gen.SNode{Kind: "object", AllOf: names(b), Props: []*gen.SProp{prop(prefix)}}
	}
	// deepHost: sometimes the root object of the host has no allOf rule of its own and the inheriting object stands inside
	// it, as a property value or as the item of an array property
	deepHost := func(prefix string) *gen.SNode {
		h := host(prefix)
		switch r.Intn(4) {
		case 0:
			uid++
			return &gen.SNode{Kind: "object", Props: []*gen.SProp{prop(prefix + "o"), {Key: fmt.Sprintf("%sin%d", prefix, uid), Node: h}}}
		case 1:
			uid++
			return &gen.SNode{Kind: "object", Props: []*gen.SProp{{Key: fmt.Sprintf("%sitems%d", prefix, uid), Node: &gen.SNode{Kind: "array", Items: []*gen.SNode{h}}}, prop(prefix + "o")}}
		}
		return h
	}
	hosts := ""
	m := &gen.Model{}
	m.Blocks = append(m.Blocks, types...)
	m.Blocks = append(m.Blocks, keyTypes...)
	if r.Chance(2, 3) {
		me := &gen.Method{Verb: "POST", Path: "/h1/{p1}", OwnPath: true}
		if r.Bool() {
			me.Request = &gen.Request{Body: gen.Body{Form: "schema", Schema: deepHost("rq"), AsChild: r.Bool()}}
			hosts += "request "
			if r.Bool() {
				me.Request.Headers = host("rqh")
				hosts += "reqheaders "
			}
		}
		if r.Bool() {
			me.Query = &gen.Query{Schema: deepHost("q")}
			hosts += "query "
		}
		// responses before the one with allOf whose bodies are not JSight schemas
		for k := r.Intn(3); k > 0; k-- {
			form := []string{"any", "empty", "regex"}[r.Intn(3)]
			b := gen.Body{Form: form}
			if form == "regex" {
				b.Regex = "ab+"
			}
			me.Responses = append(me.Responses, &gen.Response{Code: []string{"201", "204", "301"}[r.Intn(3)], Body: b})
		}
		rs := &gen.Response{Code: "200", Body: gen.Body{Form: "schema", Schema: deepHost("rs"), AsChild: r.Bool()}}
		hosts += "response "
		if r.Bool() {
			rs.Headers = host("rsh")
			hosts += "respheaders "
		}
		me.Responses = append(me.Responses, rs)
		if r.Chance(1, 3) {
			me.Responses = append(me.Responses, &gen.Response{Code: "404", Body: gen.Body{Form: "ref", Ref: fmt.Sprintf("@T%d", r.Intn(n))}})
		}
		m.Blocks = append(m.Blocks, &gen.Block{Kind: "method", Method: me})
	}
	if r.Chance(1, 2) {
		rm := &gen.RPCMethod{Name: "m1", Params: deepHost("pa")}
		if r.Bool() {
			rm.Result = deepHost("re")
		}
		m.Blocks = append(m.Blocks, &gen.Block{Kind: "rpcurl", Path: "/rpc", RPC: []*gen.RPCMethod{rm}})
		hosts += "rpc "
	}
	return m, fmt.Sprintf("n%d bases[%s] %s", n, shape, hosts)
}

// allOfNodes counts the objects with an allOf rule in an observed catalog.
func allOfNodes(root *jsonx.Node) int {
	n := 0
	jsonx.Walk(root, "$", func(path string, x *jsonx.Node) {
		if x.Kind != 'o' || x.Get("tokenType").S() != "object" {
			return
		}
		for _, rule := range x.Get("rules").Arr0() {
			if rule.Get("key").S() == "allOf" {
				n++
			}
		}
	})
	return n
}

func c12Eval(t *fw.T, c *fw.Case) {
	_, r := modelOf(c, gen.Options{MaxBlocks: 1})
	m, shape := c12Model(r, t.Pick(6, 10), t.Pick(4, 8))
	orders := t.Pick(6, 24)
	want0 := stripKey(stripKey(gen.Expected(m), "usedUserTypes"), "example")
	_ = want0
	c.Docs = nil
	outcome := ""
	for k := 0; k < orders; k++ {
		pm := &gen.Model{}
		perm := r.Perm(len(m.Blocks))
		if k == 0 {
			for i := range perm {
				perm[i] = i
			}
		}
		for _, i := range perm {
			pm.Blocks = append(pm.Blocks, m.Blocks[i])
		}
		rd := gen.Render(pm, nil)
		d := run.Single([]byte(rd.Text))
		d.FixedSeed = true
		o := t.Exec(d)
		if k == 0 {
			c.Docs = []run.Doc{d}
			outcome = o.Outcome
		}
		if o.Outcome == run.Rejected {
			if strings.Contains(o.Msg, "Duplicate keys") {
				t.Count("rejected_by_dependency_duplicate_keys")
			} else {
				t.Violation("valid-inheritance-rejected:"+run.MsgTemplate(o.Msg), fmt.Sprintf("an inheritance graph without overrides is rejected: %s\n%s", describe(o), rd.Text))
				return
			}
			continue
		}
		if o.Outcome != run.Accepted {
			return
		}
		got, err := jsonx.Parse(o.JSON)
		if err != nil {
			return
		}
		want := stripKey(stripKey(gen.Expected(pm), "usedUserTypes"), "example")
		g := stripKey(stripKey(got.Root, "usedUserTypes"), "example")
		t.Count("catalogs_compared")
		t.Add("allof_nodes_checked", allOfNodes(got.Root))
		if diff := gen.DiffCatalog(want, g, "$"); diff != "" {
			c.Docs = []run.Doc{d}
			t.Violation("inheritance-differs:"+diffClass(diff), fmt.Sprintf("inherited properties are not what the statement says: %s\n%s", diff, rd.Text))
			return
		}
	}
	t.Distinct(shape + " " + outcome)
	t.Sample("graph", map[string]interface{}{"shape": shape, "document": string(c.Docs[0].Files["root.jst"]), "outcome": outcome})
	// faulty variants
	if outcome != run.Accepted {
		return
	}
	for _, kind := range []string{"override", "non-object-base", "undefined-base"} {
		fm := &gen.Model{}
		fm.Blocks = append(fm.Blocks, m.Blocks...)
		switch kind {
		case "override":
			// a new type that inherits from some T and declares one of T's (flattened) keys again
			b := m.Blocks[r.Intn(len(m.Blocks))]
			if b.Kind != "type" || len(b.Schema.Props) == 0 {
				continue
			}
			// (the same kind of key: "@k" and @k are different properties)
			key := b.Schema.Props[0].Key
			fm.Blocks = append(fm.Blocks, &gen.Block{Kind: "type", Name: "@Over", Notation: "jsight",
				Schema: &gen.SNode{Kind: "object", AllOf: []string{b.Name}, Props: []*gen.SProp{{Key: key, KeyRef: b.Schema.Props[0].KeyRef, Node: &gen.SNode{Kind: "int", Val: "1"}}}}})
		case "non-object-base":
			fm.Blocks = append(fm.Blocks, &gen.Block{Kind: "type", Name: "@Scalar", Notation: "jsight", Schema: &gen.SNode{Kind: "int", Val: "5"}},
				&gen.Block{Kind: "type", Name: "@UsesScalar", Notation: "jsight", Schema: &gen.SNode{Kind: "object", AllOf: []string{"@Scalar"}, Props: []*gen.SProp{{Key: "own", Node: &gen.SNode{Kind: "int", Val: "1"}}}}})
		case "undefined-base":
			fm.Blocks = append(fm.Blocks, &gen.Block{Kind: "type", Name: "@UsesNothing", Notation: "jsight", Schema: &gen.SNode{Kind: "object", AllOf: []string{"@NoSuchBase"}, Props: []*gen.SProp{{Key: "own", Node: &gen.SNode{Kind: "int", Val: "1"}}}}})
		}
		rd := gen.Render(fm, nil)
		d := run.Single([]byte(rd.Text))
		o := t.Exec(d)
		t.Count("faulty_variants_checked")
		if o.Outcome != run.Rejected {
			c.Docs = []run.Doc{d}
			t.Violation("inheritance-fault-accepted:"+kind, fmt.Sprintf("%s is not rejected: %s\n%s", kind, describe(o), rd.Text))
		}
	}
}
