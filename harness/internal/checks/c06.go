package checks

import (
	"fmt"
	"strings"

	"github.com/jsightapi/jsight-schema-go-library/fs"

	"github.com/jsightapi/jsight-api-go-library/directive"
	"github.com/jsightapi/jsight-api-go-library/kit"

	"verifharness/internal/fw"
	"verifharness/internal/resolver"
	"verifharness/internal/run"
	"verifharness/internal/xrand"
)

// one neutral spelling per kind: it scans cleanly and leaves the scanner at a directive boundary.
type c06Spelling struct {
	name    string
	kind    directive.Enumeration
	hasPath bool
	text    string // %d is replaced by a unique number
	noOpen  bool   // '(' must not follow (free-text body: the parenthesis would be text)
}

var c06Spellings = []c06Spelling{
	{"JSIGHT", directive.Jsight, false, "JSIGHT 0.3", false},
	{"INFO", directive.Info, false, "INFO", false},
	{"Title", directive.Title, false, "Title \"t%d\"", false},
	{"Version", directive.Version, false, "Version %d", false},
	{"Description", directive.Description, false, "Description\n  text %d", true},
	{"SERVER", directive.Server, false, "SERVER @s%d", false},
	{"BaseUrl", directive.BaseURL, false, "BaseUrl \"https://h%d/\"", false},
	{"URL", directive.URL, false, "URL /u%d", false},
	{"GET", directive.Get, false, "GET", false},
	{"POST", directive.Post, false, "POST", false},
	{"PUT", directive.Put, false, "PUT", false},
	{"PATCH", directive.Patch, false, "PATCH", false},
	{"DELETE", directive.Delete, false, "DELETE", false},
	{"GET/p", directive.Get, true, "GET /g%d", false},
	{"POST/p", directive.Post, true, "POST /g%d", false},
	{"PUT/p", directive.Put, true, "PUT /g%d", false},
	{"PATCH/p", directive.Patch, true, "PATCH /g%d", false},
	{"DELETE/p", directive.Delete, true, "DELETE /g%d", false},
	{"Body", directive.Body, false, "Body any", false},
	{"Request", directive.Request, false, "Request any", false},
	{"200", directive.HTTPResponseCode, false, "200 any", false},
	{"Path", directive.Path, false, "Path\n{\"id\": %d}", false},
	{"Headers", directive.Headers, false, "Headers\n{\"h\": \"v%d\"}", false},
	{"Query", directive.Query, false, "Query\n{\"q\": %d}", false},
	{"TYPE", directive.Type, false, "TYPE @t%d any", false},
	{"ENUM", directive.Enum, false, "ENUM @e%d\n[%d]", false},
	{"MACRO", directive.Macro, false, "MACRO @m%d", false},
	{"PASTE", directive.Paste, false, "PASTE @p%d", false},
	{"Protocol", directive.Protocol, false, "Protocol json-rpc-2.0", false},
	{"Method", directive.Method, false, "Method m%d", false},
	{"Params", directive.Params, false, "Params\n{\"p\": %d}", false},
	{"Result", directive.Result, false, "Result\n{\"r\": %d}", false},
	{"TAG", directive.TAG, false, "TAG @g%d", false},
	{"Tags", directive.Tags, false, "Tags @g%d", false},
	{"503", directive.HTTPResponseCode, false, "503 any", false},
	{"100", directive.HTTPResponseCode, false, "100\n{}", false},
}

func init() {
	fw.Register(&fw.Check{
		ID:    "C06",
		Level: "exploration",
		Rule: "sequences of directive kinds (36 neutral spellings: the 29 tree kinds plus path-bearing variants of the five HTTP methods and two more response codes (5xx with a parameter, 1xx with its body on the next line); INCLUDE never enters the tree) with parentheses: " +
			"all sequences up to the length bound, each with every placement of one '(' ')' pair, of a lone '(' and of a lone ')', plus random longer sequences with random parentheses; " +
			"the directive tree the real scanner+core build (hook: scan-only entry and tree accessors) must be isomorphic (kind, keyword offset, children order) to the tree of a 40-line reference walk written from the statement over the repo's public admissibility table, " +
			"and the rejection class (incorrect context / no context to close / unclosed context) must agree exactly; a second family checks the tree after MACRO/PASTE expansion against the reference run on the sequence with the macro body written in place; " +
			"a third cuts a random sequence at any element boundary (also between a directive and its '(' or before a ')') and moves the tail into an included file: inclusion is textual, so rejection class and tree (kinds and nesting) must equal those of the uncut text; the same with a run in the middle moved out and the rest left behind the INCLUDE line (also inside parentheses the including file has open; runs that leave a parenthesis of their own open, and cuts between a directive and its '(', are skipped: a file answers for the parentheses it opens). " +
			"distinct_nontrivial = distinct (context kind, incoming kind, decision) triples decided by the reference on the executed sequences",
		Assumptions: []string{
			"'(' is only emitted directly after a directive that has no free-text body (after Description a '(' line is text by the language)",
			"the admissibility table is part of the language: the reference walk uses a frozen copy (generated from the pinned tree by tools/gentable.go.txt) and the library's live table is compared with it cell by cell",
		},
		Exhaustive: true,
		Families: []fw.Family{
			{Name: "table", N: func(string) int { return 1 }, Gen: func(r *xrand.Rand, idx int, tier string) *fw.Case {
				return &fw.Case{Docs: []run.Doc{{}}}
			}, Eval: c06EvalTable},
			{Name: "sequences", Stream: c06StreamSequences, Eval: c06Eval},
			{Name: "random", N: constN(30000, 1200000), Gen: c06GenRandom, Eval: c06Eval},
			{Name: "paste", N: constN(20000, 600000), Gen: c06GenPaste, Eval: c06EvalPaste},
			{Name: "tail-split", N: constN(6000, 200000), Gen: c06GenRandom, Eval: c06EvalSplit},
		},
		Floors: map[string]int64{"trees_compared": 20000, "rejections_compared": 20000},
	})
}

// c06Render turns a compact sequence description into text. seq items: spelling index, or -1 '(' , -2 ')'.
func c06Render(seq []int) string {
	var sb strings.Builder
	u := 0
	for _, s := range seq {
		switch s {
		case -1:
			sb.WriteString("(\n")
		case -2:
			sb.WriteString(")\n")
		default:
			u++
			t := c06Spellings[s].text
			n := strings.Count(t, "%d")
			args := make([]interface{}, n)
			for i := range args {
				args[i] = u
			}
			sb.WriteString(fmt.Sprintf(t, args...))
			sb.WriteByte('\n')
		}
	}
	return sb.String()
}

func encodeSeq(seq []int) string {
	parts := make([]string, len(seq))
	for i, s := range seq {
		parts[i] = fmt.Sprint(s)
	}
	return strings.Join(parts, ",")
}

func decodeSeq(s string) []int {
	if s == "" {
		return nil
	}
	var out []int
	for _, p := range strings.Split(s, ",") {
		var v int
		fmt.Sscan(p, &v)
		out = append(out, v)
	}
	return out
}

func c06Case(seq []int) *fw.Case {
	return &fw.Case{Meta: map[string]string{"seq": encodeSeq(seq)}, Docs: []run.Doc{{}}}
}

func c06StreamSequences(t *fw.T, shard, nshards int, emit func(*fw.Case)) {
	maxLen := t.Pick(3, 3)
	if t.Thorough() {
		maxLen = 4
	}
	n := 0
	send := func(seq []int) {
		n++
		if n%nshards != shard {
			emit(nil)
			return
		}
		emit(c06Case(append([]int{}, seq...)))
	}
	K := len(c06Spellings)
	var rec func(prefix []int, depth int)
	rec = func(prefix []int, depth int) {
		if depth > 0 {
			L := len(prefix)
			send(prefix)
			// in the thorough tier length-4 sequences get a sampled subset of placements
			sparse := L == 4
			for i := 0; i < L; i++ {
				if c06Spellings[prefix[i]].noOpen {
					continue
				}
				// lone '(' after directive i
				lone := append(append(append([]int{}, prefix[:i+1]...), -1), prefix[i+1:]...)
				if !sparse || (n+i)%5 == 0 {
					send(lone)
				}
				for j := i; j < L; j++ {
					if sparse && (n+i+j)%7 != 0 {
						continue
					}
					// '(' after i, ')' after j
					var s []int
					s = append(s, prefix[:i+1]...)
					s = append(s, -1)
					s = append(s, prefix[i+1:j+1]...)
					s = append(s, -2)
					s = append(s, prefix[j+1:]...)
					send(s)
				}
			}
			// parentheses that no directive owns: at the very beginning, a second '(' for the same directive, a '(' right after a ')'
			if !sparse || n%11 == 0 {
				send(append([]int{-1}, prefix...))
				for i := 0; i < L; i++ {
					if c06Spellings[prefix[i]].noOpen {
						continue
					}
					dbl := append(append(append([]int{}, prefix[:i+1]...), -1, -1), prefix[i+1:]...)
					send(append(dbl, -2))
					send(append(dbl, -2, -2))
					send(append(append(append([]int{}, prefix[:i+1]...), -1, -2, -1), prefix[i+1:]...))
				}
			}
			for j := 0; j < L; j++ { // lone ')' after directive j
				if sparse && (n+j)%5 != 0 {
					continue
				}
				lone := append(append(append([]int{}, prefix[:j+1]...), -2), prefix[j+1:]...)
				send(lone)
			}
		}
		if depth == maxLen {
			return
		}
		for k := 0; k < K; k++ {
			rec(append(prefix, k), depth+1)
		}
	}
	rec(nil, 0)
}

// weights: favour kinds that nest
func c06PickKind(r *xrand.Rand) int {
	if r.Chance(1, 2) {
		hot := []int{7, 8, 9, 13, 14, 19, 20, 18, 21, 22, 23, 27, 28, 29, 30, 31, 33, 4, 1, 5, 26, 34, 35, 4}
		return hot[r.Intn(len(hot))]
	}
	return r.Intn(len(c06Spellings))
}

func c06GenRandom(r *xrand.Rand, idx int, tier string) *fw.Case {
	L := r.Range(5, 25)
	var seq []int
	open := 0
	for i := 0; i < L; i++ {
		k := c06PickKind(r)
		seq = append(seq, k)
		if !c06Spellings[k].noOpen && r.Chance(1, 5) {
			seq = append(seq, -1)
			open++
		}
		if open > 0 && r.Chance(1, 4) {
			seq = append(seq, -2)
			open--
		}
		if r.Chance(1, 60) {
			seq = append(seq, -2) // maybe unmatched
		}
	}
	for open > 0 && !r.Chance(1, 15) {
		seq = append(seq, -2)
		open--
	}
	// never '(' directly after ')' or at the very beginning (no directive to open: outside the statement)
	var clean []int
	keepOrphans := idx%5 == 0 // a '(' that no directive owns must be refused: kept in a fifth of the sequences
	for i, s := range seq {
		if s == -1 && (i == 0 || seq[i-1] < 0) && !keepOrphans {
			continue
		}
		clean = append(clean, s)
	}
	return c06Case(clean)
}

func seqEvents(seq []int, text string) []resolver.Event {
	// offsets of the directives: recompute by rendering prefixes
	var ev []resolver.Event
	off := 0
	u := 0
	for _, s := range seq {
		switch s {
		case -1:
			ev = append(ev, resolver.Event{Type: resolver.EvOpen})
			off += 2
		case -2:
			ev = append(ev, resolver.Event{Type: resolver.EvClose})
			off += 2
		default:
			u++
			sp := c06Spellings[s]
			t := sp.text
			n := strings.Count(t, "%d")
			args := make([]interface{}, n)
			for i := range args {
				args[i] = u
			}
			rendered := fmt.Sprintf(t, args...)
			ev = append(ev, resolver.Event{Type: resolver.EvDirective, Kind: sp.kind, HasPath: sp.hasPath, Off: off})
			off += len(rendered) + 1
		}
	}
	_ = text
	return ev
}

func rejectionClass(msg string) string {
	low := strings.ToLower(msg)
	switch {
	case strings.Contains(low, "incorrect context"):
		return resolver.IncorrectContext
	case strings.Contains(low, "no explicit context for closure"):
		return resolver.NoOpenContext
	case strings.Contains(low, "not all explicit contexts are closed"):
		return resolver.UnclosedContext
	case strings.Contains(low, "there is no directive to which"):
		return resolver.OrphanOpen
	}
	return "other:" + run.MsgTemplate(msg)
}

// scanOnly runs the scanning stage of the real core.
func scanOnly(text string) (tree []*resolver.Item, msg string, panicked interface{}) {
	defer func() {
		if r := recover(); r != nil {
			panicked = r
		}
	}()
	j := kit.NewJApiFromFile(fs.NewFile(run.MemDir+"/root.jst", []byte(text)))
	c := j.VerifCore()
	if err := c.VerifScanOnly(); err != nil {
		return resolver.FromDirectives(c.VerifDirectives()), err.Error(), nil
	}
	return resolver.FromDirectives(c.VerifDirectives()), "", nil
}

// decisions records the (context kind, incoming kind, decision) triples of the reference walk for the evidence.
func decisions(t *fw.T, roots []*resolver.Item, rej string) {
	var rec func(it *resolver.Item)
	rec = func(it *resolver.Item) {
		for _, c := range it.Children {
			t.Distinct(fmt.Sprintf("%s <- %s child", it.Kind.String(), c.Kind.String()))
			rec(c)
		}
	}
	for _, it := range roots {
		if it.HasPath {
			t.Distinct("root <- " + it.Kind.String() + " with path")
		} else {
			t.Distinct("root <- " + it.Kind.String())
		}
		rec(it)
	}
	if rej != "" {
		t.Distinct("reject " + rej)
	}
}

func c06Eval(t *fw.T, c *fw.Case) {
	seq := decodeSeq(c.Meta["seq"])
	text := c06Render(seq)
	c.Docs[0] = run.Single([]byte(text))
	want, wantRej := resolver.Resolve(seqEvents(seq, text))
	got, msg, pv := scanOnly(text)
	t.Count("executions")
	if pv != nil {
		t.Violation("scan-panic", fmt.Sprintf("scanning panicked: %v; input %s", pv, fw.Short([]byte(text), 400)))
		return
	}
	gotRej := ""
	if msg != "" {
		gotRej = rejectionClass(msg)
	}
	if strings.HasPrefix(gotRej, "other:") {
		t.Count("other_rejections")
		if wantRej != "" {
			// both reject; the library's words are not among those the classes are told by (the wording is the
			// library's own business): the verdicts agree, the class cannot be compared
			t.Count("rejections_agreed_wording_unknown")
			return
		}
		t.Violation("unexpected-rejection:"+gotRej, fmt.Sprintf("a neutral sequence is rejected for another reason: %q; input %s", msg, fw.Short([]byte(text), 400)))
		return
	}
	if gotRej != wantRej {
		t.Violation(fmt.Sprintf("rejection:%s-vs-%s", orOK(gotRej), orOK(wantRej)), fmt.Sprintf("the library says %q (%s), the reference walk says %s; input %s",
			msg, orOK(gotRej), orOK(wantRej), fw.Short([]byte(text), 400)))
		return
	}
	if wantRej != "" {
		t.Count("rejections_compared")
		decisions(t, nil, wantRej)
		return
	}
	t.Count("trees_compared")
	if g, w := resolver.Render(got), resolver.Render(want); g != w {
		t.Violation("tree-differs", fmt.Sprintf("directive tree differs from the reference:\n  library:   %s\n  reference: %s\n  input %s", g, w, fw.Short([]byte(text), 400)))
		return
	}
	decisions(t, want, "")
	t.Sample("tree", map[string]interface{}{"input": text, "tree": resolver.Render(got)})
	// the library resolves the contexts a second time when it expands macros, also in documents without any: the tree it
	// goes on with must be the same one (every third sequence: the whole pipeline costs more than the scan)
	if c.Index%3 == 0 && !strings.Contains(text, "PASTE") && !strings.Contains(text, "MACRO") {
		o := t.ExecKeep(c.Docs[0])
		if o.Core != nil && o.Outcome != run.Panic && o.Outcome != run.Budget {
			if exp := o.Core.VerifDirectivesWithPastes(); len(exp) > 0 || len(want) == 0 {
				t.Count("trees_after_expansion_compared")
				if g, w := renderKinds(resolver.FromDirectives(exp)), renderKinds(want); g != w {
					t.Violation("tree-after-expansion-differs", fmt.Sprintf("the directive tree after the expansion pass differs from the reference (no macros in the document):\n  library:   %s\n  reference: %s\n  input %s", g, w, fw.Short([]byte(text), 400)))
				}
			}
		}
	}
}

func orOK(s string) string {
	if s == "" {
		return "accepted"
	}
	return s
}

// ---- after MACRO / PASTE expansion ----

// c06GenPaste: MACRO @mac ( body ) and a host sequence with PASTE @mac. Both are grown one item at a time and an
// item is kept only if the reference still finds a place for everything (so most documents get past scanning).
func c06GenPaste(r *xrand.Rand, idx int, tier string) *fw.Case {
	macroKinds := []int{1, 2, 3, 4, 5, 6, 7, 8, 9, 13, 14, 18, 19, 20, 21, 22, 23, 24, 25, 20, 19, 8, 22}
	hostKinds := []int{7, 8, 9, 13, 19, 20, 5, 1, 24, 22, 18, 7, 8, 20, 21, 23, 4}
	evOf := func(seq []int, inMacro bool) []resolver.Event {
		var ev []resolver.Event
		if inMacro {
			ev = append(ev, resolver.Event{Type: resolver.EvDirective, Kind: directive.Macro}, resolver.Event{Type: resolver.EvOpen})
		}
		for _, s := range seq {
			switch s {
			case -1:
				ev = append(ev, resolver.Event{Type: resolver.EvOpen})
			case -2:
				ev = append(ev, resolver.Event{Type: resolver.EvClose})
			case -3:
				ev = append(ev, resolver.Event{Type: resolver.EvDirective, Kind: directive.Paste})
			default:
				ev = append(ev, resolver.Event{Type: resolver.EvDirective, Kind: c06Spellings[s].kind, HasPath: c06Spellings[s].hasPath})
			}
		}
		return ev
	}
	okSoFar := func(seq []int, inMacro bool) bool {
		_, rej := resolver.Resolve(evOf(seq, inMacro))
		return rej == resolver.OK || rej == resolver.UnclosedContext
	}
	grow := func(kinds []int, n int, inMacro bool, allowPaste bool) []int {
		var seq []int
		open := 0
		pastes := 0
		for i := 0; i < n; i++ {
			for try := 0; try < 6; try++ {
				var cand []int
				switch {
				case allowPaste && pastes < 2 && r.Chance(1, 3):
					cand = append(append([]int{}, seq...), -3)
				case open > 0 && r.Chance(1, 4):
					cand = append(append([]int{}, seq...), -2)
				default:
					k := kinds[r.Intn(len(kinds))]
					if r.Chance(1, 10) {
						k = c06PickKind(r)
					}
					if sp := c06Spellings[k]; sp.kind == directive.Macro || sp.kind == directive.Jsight || sp.kind == directive.Paste {
						continue
					}
					cand = append(append([]int{}, seq...), k)
					if !c06Spellings[k].noOpen && r.Chance(1, 5) {
						cand = append(cand, -1)
					}
				}
				if okSoFar(cand, inMacro) || r.Chance(1, 12) { // a few sequences are allowed to go wrong
					last := cand[len(cand)-1]
					if last == -1 {
						open++
					} else if last == -2 {
						open--
					} else if last == -3 {
						pastes++
					}
					seq = cand
					break
				}
			}
		}
		for open > 0 {
			seq = append(seq, -2)
			open--
		}
		if allowPaste && pastes == 0 {
			seq = append(seq, -3)
		}
		return seq
	}
	body := grow(macroKinds, r.Range(1, 5), true, false)
	host := grow(hostKinds, r.Range(1, 7), false, true)
	macroFirst := r.Bool()
	return &fw.Case{Meta: map[string]string{"body": encodeSeq(body), "host": encodeSeq(host), "macro_first": fmt.Sprint(macroFirst)}, Docs: []run.Doc{{}}}
}

func c06RenderPaste(body, host []int, macroFirst bool) string {
	u := 1000
	renderSeq := func(seq []int, indent string) string {
		var sb strings.Builder
		for _, s := range seq {
			switch s {
			case -1:
				sb.WriteString(indent + "(\n")
			case -2:
				sb.WriteString(indent + ")\n")
			case -3:
				sb.WriteString(indent + "PASTE @mac\n")
			default:
				u++
				t := c06Spellings[s].text
				n := strings.Count(t, "%d")
				args := make([]interface{}, n)
				for i := range args {
					args[i] = u
				}
				sb.WriteString(indent + fmt.Sprintf(t, args...) + "\n")
			}
		}
		return sb.String()
	}
	macro := "MACRO @mac\n(\n" + renderSeq(body, "  ") + ")\n"
	h := renderSeq(host, "")
	if macroFirst {
		return macro + h
	}
	return h + macro
}

func c06EvalPaste(t *fw.T, c *fw.Case) {
	body, host := decodeSeq(c.Meta["body"]), decodeSeq(c.Meta["host"])
	text := c06RenderPaste(body, host, c.Meta["macro_first"] == "true")
	c.Docs[0] = run.Single([]byte(text))
	o := t.ExecKeep(c.Docs[0])
	if o.Outcome == run.Panic || o.Outcome == run.Budget {
		t.Violation("paste-panic", fmt.Sprintf("%s %s; input %s", o.Outcome, o.PanicVal, fw.Short([]byte(text), 500)))
		return
	}
	if o.Core == nil {
		return
	}
	scanned := resolver.FromDirectives(o.Core.VerifDirectives()) // MACROs already removed once compilation started
	macros := o.Core.VerifMacros()
	mac, ok := macros["@mac"]
	if !ok {
		t.Count("paste_scan_rejected")
		return
	}
	macItems := resolver.FromDirectives(mac.Children)
	// the reference: the host sequence with the macro body written in place of every PASTE @mac
	depth := 0
	var pasteFn func(it *resolver.Item) []resolver.Event
	pasteFn = func(it *resolver.Item) []resolver.Event {
		depth++
		defer func() { depth-- }()
		if depth > 4 {
			return nil
		}
		return resolver.Events(macItems, pasteFn)
	}
	ev := resolver.Events(scanned, pasteFn)
	want, wantRej := resolver.Resolve(ev)
	expanded := o.Core.VerifDirectivesWithPastes()
	t.Count("executions")
	gotRej := ""
	if o.Outcome == run.Rejected {
		gotRej = rejectionClass(o.Msg)
	}
	if wantRej != "" {
		if gotRej != wantRej {
			// the library may have failed earlier for an unrelated reason (e.g. empty macro); only a claim of success is wrong
			if o.Outcome == run.Accepted || gotRej == resolver.IncorrectContext || gotRej == resolver.NoOpenContext || gotRej == resolver.UnclosedContext {
				t.Violation(fmt.Sprintf("paste-rejection:%s-vs-%s", orOK(gotRej), wantRej), fmt.Sprintf("after expansion the reference rejects (%s), the library: %s; input %s", wantRej, describe(o), fw.Short([]byte(text), 500)))
			} else {
				t.Count("paste_other_rejection")
			}
			return
		}
		t.Count("rejections_compared")
		t.Distinct("paste reject " + wantRej)
		return
	}
	if gotRej == resolver.IncorrectContext || gotRej == resolver.NoOpenContext || gotRej == resolver.UnclosedContext {
		t.Violation("paste-rejection:"+gotRej+"-vs-accepted", fmt.Sprintf("the library rejects the expansion (%q) where writing the body in place resolves; input %s", o.Msg, fw.Short([]byte(text), 500)))
		return
	}
	if expanded == nil {
		t.Count("paste_not_expanded")
		return
	}
	got := resolver.FromDirectives(expanded)
	// the expansion stops at the first later-stage error only after the whole tree is built; compare whole trees
	if g, w := resolver.Render(got), resolver.Render(want); g != w {
		// a later-stage rejection during paste processing (macro not found, annotation…) leaves a partial tree
		if o.Outcome == run.Rejected && len(g) < len(w) && strings.HasPrefix(w, strings.TrimRight(g, "]")) {
			t.Count("paste_partial_tree")
			return
		}
		t.Violation("paste-tree-differs", fmt.Sprintf("tree after expansion differs from the reference (body written in place):\n  library:   %s\n  reference: %s\n  input %s", g, w, fw.Short([]byte(text), 500)))
		return
	}
	t.Count("trees_compared")
	t.Count("paste_trees_compared")
	decisions(t, want, "")
	t.Sample("paste-tree", map[string]interface{}{"input": text, "tree": resolver.Render(got)})
}


// ---- the tail of a sequence moved into an included file ----

func renderKinds(items []*resolver.Item) string {
	var sb strings.Builder
	var rec func(it *resolver.Item)
	rec = func(it *resolver.Item) {
		sb.WriteString(it.Kind.String())
		if it.HasPath {
			sb.WriteString("/p")
		}
		if len(it.Children) > 0 {
			sb.WriteString("[")
			for i, c := range it.Children {
				if i > 0 {
					sb.WriteString(" ")
				}
				rec(c)
			}
			sb.WriteString("]")
		}
	}
	for i, it := range items {
		if i > 0 {
			sb.WriteString(" ")
		}
		rec(it)
	}
	return sb.String()
}

func c06EvalSplit(t *fw.T, c *fw.Case) {
	seq := decodeSeq(c.Meta["seq"])
	if len(seq) < 2 {
		return
	}
	r := xrand.Derive(t.Seed, c.Index, "C06", "split")
	k := r.Range(1, len(seq)-1)
	for _, s := range seq[k:] {
		if s >= 0 && c06Spellings[s].kind == directive.Jsight {
			t.Count("split_skipped_jsight_in_tail")
			return // JSIGHT may not stand in an included file: not a textual matter
		}
	}
	whole := c06Render(seq)
	// render head and tail with the same numbering as the whole
	head := c06Render(seq[:k])
	tail := whole[len(head):]
	dWhole := run.Doc{Files: map[string][]byte{"root.jst": []byte(whole)}, Root: "root.jst", OnDisk: true}
	dSplit := run.Doc{Files: map[string][]byte{"root.jst": []byte(head + "INCLUDE tail.jst\n"), "tail.jst": []byte(tail)}, Root: "root.jst"}
	c.Docs = []run.Doc{dWhole, dSplit}
	ow := t.ExecKeep(dWhole)
	defer c06MiddleSplit(t, c, seq, r, whole, ow)
	os := t.ExecKeep(dSplit)
	if os.Outcome == run.Panic || os.Outcome == run.Budget {
		t.Violation("split-panic", fmt.Sprintf("%s %s; root %q tail %q", os.Outcome, os.PanicVal, head, tail))
		return
	}
	cls := func(o *run.Obs) string {
		if o.Outcome != run.Rejected {
			return ""
		}
		if rc := rejectionClass(o.Msg); !strings.HasPrefix(rc, "other:") {
			return rc
		}
		return ""
	}
	t.Count("splits_compared")
	cw, cs := cls(ow), cls(os)
	if cw != cs {
		t.Violation(fmt.Sprintf("split-rejection:%s-vs-%s", orOK(cs), orOK(cw)), fmt.Sprintf("moving the tail into an included file changes the context verdict: uncut %s | cut %s\n--- root\n%sINCLUDE tail.jst\n--- tail.jst\n%s", describe(ow), describe(os), head, tail))
		return
	}
	if cw != "" || ow.Core == nil || os.Core == nil {
		t.Distinct("split reject " + cw)
		return
	}
	gw, gs := renderKinds(resolver.FromDirectives(ow.Core.VerifDirectives())), renderKinds(resolver.FromDirectives(os.Core.VerifDirectives()))
	if gw != gs {
		t.Violation("split-tree-differs", fmt.Sprintf("moving the tail into an included file changes the directive tree:\n  uncut: %s\n  cut:   %s\n--- root\n%sINCLUDE tail.jst\n--- tail.jst\n%s", gw, gs, head, tail))
		return
	}
	t.Count("split_trees_compared")
	last := "directive"
	if seq[k] == -1 {
		last = "open-paren"
	} else if seq[k] == -2 {
		last = "close-paren"
	}
	t.Distinct("split before " + last)
}

// c06MiddleSplit: a run in the middle of the sequence goes to an included file, the rest stays behind the INCLUDE line.
// A file answers for the parentheses it opens itself (it may close one of the including file's), so runs that leave one
// of their own open are not comparable and are skipped; parentheses of the including file that are open around the
// INCLUDE are none of the included file's business.
func c06MiddleSplit(t *fw.T, c *fw.Case, seq []int, r *xrand.Rand, whole string, ow *run.Obs) {
	if len(seq) < 3 {
		return
	}
	i := r.Range(1, len(seq)-2)
	j := r.Range(i+1, len(seq)-1)
	depth, around := 0, 0
	for _, s := range seq[:i] {
		if s == -1 {
			around++
		} else if s == -2 && around > 0 {
			around--
		}
	}
	for _, s := range seq[i:j] {
		switch {
		case s == -1:
			depth++
		case s == -2:
			if depth > 0 {
				depth--
			}
		case s >= 0 && c06Spellings[s].kind == directive.Jsight:
			return
		}
	}
	if depth != 0 {
		t.Count("middle_split_skipped_own_parenthesis_left_open")
		return
	}
	if seq[j] == -1 {
		// the parenthesis of the run's last directive would stand in the including file: a directive and its parenthesis
		// are one thing, and a file cannot open a parenthesis for a directive that ended in another file
		t.Count("middle_split_skipped_parenthesis_after_include")
		return
	}
	head := c06Render(seq[:i])
	headMid := c06Render(seq[:j])
	if !strings.HasPrefix(headMid, head) || !strings.HasPrefix(whole, headMid) {
		return
	}
	mid, rest := headMid[len(head):], whole[len(headMid):]
	if strings.TrimSpace(mid) == "" {
		return
	}
	dSplit := run.Doc{Files: map[string][]byte{"root.jst": []byte(head + "INCLUDE mid.jst\n" + rest), "mid.jst": []byte(mid)}, Root: "root.jst"}
	os := t.ExecKeep(dSplit)
	if os.Outcome == run.Panic || os.Outcome == run.Budget {
		c.Docs = []run.Doc{c.Docs[0], dSplit}
		t.Violation("split-panic", fmt.Sprintf("%s %s; root %q mid %q", os.Outcome, os.PanicVal, head+"INCLUDE mid.jst\n"+rest, mid))
		return
	}
	cls := func(o *run.Obs) string {
		if o.Outcome != run.Rejected {
			return ""
		}
		if rc := rejectionClass(o.Msg); !strings.HasPrefix(rc, "other:") {
			return rc
		}
		return ""
	}
	t.Count("middle_splits_compared")
	if around > 0 {
		t.Count("middle_splits_inside_open_parentheses")
	}
	cw, cs := cls(ow), cls(os)
	show := fmt.Sprintf("--- root\n%sINCLUDE mid.jst\n%s--- mid.jst\n%s", head, rest, mid)
	if cw != cs || (ow.Outcome == run.Rejected) != (os.Outcome == run.Rejected) {
		c.Docs = []run.Doc{c.Docs[0], dSplit}
		t.Violation(fmt.Sprintf("middle-split-rejection:%s-vs-%s", orOK(cs), orOK(cw)), fmt.Sprintf("moving a run in the middle into an included file changes the verdict: uncut %s | cut %s\n%s", describe(ow), describe(os), show))
		return
	}
	if cw != "" || ow.Core == nil || os.Core == nil {
		return
	}
	gw, gs := renderKinds(resolver.FromDirectives(ow.Core.VerifDirectives())), renderKinds(resolver.FromDirectives(os.Core.VerifDirectives()))
	if gw != gs {
		c.Docs = []run.Doc{c.Docs[0], dSplit}
		t.Violation("middle-split-tree-differs", fmt.Sprintf("moving a run in the middle into an included file changes the directive tree:\n  uncut: %s\n  cut:   %s\n%s", gw, gs, show))
		return
	}
	t.Count("middle_split_trees_compared")
}


// c06EvalTable: what each kind of context admits is part of the language: the library's table is compared cell by cell
// with the frozen copy the reference walk uses.
func c06EvalTable(t *fw.T, c *fw.Case) {
	var kinds []directive.Enumeration
	for k := directive.Jsight; k <= directive.Tags; k++ {
		kinds = append(kinds, k)
	}
	for _, p := range kinds {
		t.Count("table_cells_compared")
		if got, want := p.IsAllowedForRootContext(), resolver.GoldenRoot(p.String()); got != want {
			t.Violation("admissibility-table-differs:root:"+p.String(), fmt.Sprintf("the top level admits %s: library %v, language definition %v", p.String(), got, want))
		}
		for _, ch := range kinds {
			t.Count("table_cells_compared")
			if got, want := p.IsAllowedForDirectiveContext(ch), resolver.GoldenAdmits(p.String(), ch.String()); got != want {
				t.Violation("admissibility-table-differs:"+p.String()+":"+ch.String(), fmt.Sprintf("%s admits %s: library %v, language definition %v", p.String(), ch.String(), got, want))
			}
		}
	}
	t.Distinct("table")
}
