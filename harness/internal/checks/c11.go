package checks

import (
	"fmt"
	"regexp"
	"strings"

	"verifharness/internal/fw"
	"verifharness/internal/gen"
	"verifharness/internal/run"
	"verifharness/internal/xrand"
)

func init() {
	fw.Register(&fw.Check{
		ID:    "C11",
		Level: "fault_enumeration",
		Rule: "fault injection: a generated model whose canonical rendering is accepted gets exactly one fault, and the faulty document must be rejected; for directly written faults the diagnostic must lie inside the source span of a directive that takes part in the fault. " +
			"Fault kinds (each at every position it applies to, chosen by index): second type / enum / server / tag / macro with one name; the same method on the same path twice; the same URL path twice; two paths that differ only in a parameter name; " +
			"a second singleton child (Title, Version, Description of INFO / method / JSON-RPC method / TAG, Query, Path, Protocol, Headers, request Body, response Body); an omitted required parameter (every directive that has one); " +
			"a reference to an undefined type (property, array item, body reference, allOf base, '@a | @b'), enum, macro or tag. Carriers: written directly, brought in by PASTE, brought in by INCLUDE. " +
			"distinct_nontrivial = distinct (fault kind, carrier, host directive kind)",
		Assumptions: []string{
			"which of two equal declarations is 'the offending one' is not fixed by the statement: a location inside either is accepted",
			"for faults carried by PASTE or INCLUDE only the rejection is asserted here (locations through includes are C02's business)",
		},
		Families: []fw.Family{
			{Name: "faults", N: constN(1500, 40000), Gen: genModelCase, Eval: c11Eval},
		},
		Floors: map[string]int64{"faults_injected": 6000},
	})
}

var c11Opt = gen.Options{MaxBlocks: 10, AllowAllOf: true, Rich: true}

type fault struct {
	kind   string
	host   string
	text   string   // faulty single-file text (direct carrier)
	labels []string // span labels of the participants (direct carrier)
	spans  [][2]int // explicit byte ranges of the participants, when known from text surgery
	model  *gen.Model
	focus  []string // labels that must be extracted for the PASTE / INCLUDE carriers
}

func cloneModel(m *gen.Model) *gen.Model {
	// the faults below replace whole blocks or nodes, never mutate shared ones in place
	cp := &gen.Model{}
	cp.Blocks = append(cp.Blocks, m.Blocks...)
	return cp
}

func spanOf(rd *gen.Rendered, label string) []gen.Span {
	var out []gen.Span
	for _, s := range rd.Spans {
		if s.Label == label {
			out = append(out, s)
		}
	}
	return out
}

var refRe = regexp.MustCompile(`@t[0-9]+`)
var enumRuleRe = regexp.MustCompile(`enum: (@e[0-9]+)`)

// buildFaults enumerates the faults that apply to this model.
func buildFaults(m *gen.Model, base *gen.Rendered, r *xrand.Rand) []fault {
	var out []fault
	text := base.Text
	// ---- model level: duplicates of named declarations ----
	for i, b := range m.Blocks {
		switch b.Kind {
		case "type", "enum", "server", "tag":
			cp := *b
			cp.Annotation = "second declaration"
			fm := cloneModel(m)
			pos := r.Intn(len(fm.Blocks) + 1)
			fm.Blocks = append(fm.Blocks[:pos:pos], append([]*gen.Block{&cp}, fm.Blocks[pos:]...)...)
			label := b.Kind + ":" + b.Name
			out = append(out, fault{kind: "duplicate-" + b.Kind, host: strings.ToUpper(b.Kind), model: fm, labels: []string{label}, focus: []string{label}})
		case "url":
			// the same URL path twice (with another verb, so that only the path clashes)
			used := map[string]bool{}
			for _, me := range b.Methods {
				used[me.Verb] = true
			}
			for _, v := range []string{"GET", "POST", "PUT", "PATCH", "DELETE"} {
				if !used[v] {
					cp := &gen.Block{Kind: "url", Path: b.Path, Methods: []*gen.Method{{Verb: v, Path: b.Path}}}
					fm := cloneModel(m)
					fm.Blocks = append(fm.Blocks, cp)
					out = append(out, fault{kind: "duplicate-url-path", host: "URL", model: fm, labels: []string{"url:" + b.Path}, focus: []string{"url:" + b.Path}})
					break
				}
			}
			// the same URL path again as a JSON-RPC resource (placed anywhere)
			{
				cp := &gen.Block{Kind: "rpcurl", Path: b.Path, RPC: []*gen.RPCMethod{{Name: "dupRpcOnHttpPath", Params: &gen.SNode{Kind: "object"}}}}
				fm := cloneModel(m)
				pos := r.Intn(len(fm.Blocks) + 1)
				fm.Blocks = append(fm.Blocks[:pos:pos], append([]*gen.Block{cp}, fm.Blocks[pos:]...)...)
				out = append(out, fault{kind: "duplicate-url-path-other-protocol", host: "URL", model: fm, labels: []string{"url:" + b.Path}, focus: []string{"url:" + b.Path}})
			}
			// the same method on the same path twice
			if len(b.Methods) > 0 {
				me := b.Methods[0]
				fm := cloneModel(m)
				dup := &gen.Block{Kind: "method", Method: &gen.Method{Verb: me.Verb, Path: me.Path, OwnPath: true, Annotation: "again"}}
				pos := r.Intn(len(fm.Blocks) + 1)
				fm.Blocks = append(fm.Blocks[:pos:pos], append([]*gen.Block{dup}, fm.Blocks[pos:]...)...)
				lab := "method:" + me.Verb + " " + me.Path
				out = append(out, fault{kind: "duplicate-method", host: me.Verb, model: fm, labels: []string{lab, "url:" + b.Path}, focus: []string{lab}})
			}
			// a path that differs only in a parameter name
			if prefixes, names := gen.PathParams(b.Path); len(names) > 0 {
				k := r.Intn(len(names))
				_ = prefixes
				np := strings.Replace(b.Path, "{"+names[k]+"}", "{other"+names[k]+"}", 1) + "/sim"
				fm := cloneModel(m)
				fm.Blocks = append(fm.Blocks, &gen.Block{Kind: "method", Method: &gen.Method{Verb: "GET", Path: np, OwnPath: true}})
				out = append(out, fault{kind: "similar-path", host: "GET", model: fm, labels: []string{"method:GET " + np, "url:" + b.Path}, focus: []string{"method:GET " + np}})
			}
		case "rpcurl":
			// the same URL path again as an HTTP resource (placed anywhere)
			{
				cp := &gen.Block{Kind: "url", Path: b.Path, Methods: []*gen.Method{{Verb: "GET", Path: b.Path}}}
				fm := cloneModel(m)
				pos := r.Intn(len(fm.Blocks) + 1)
				fm.Blocks = append(fm.Blocks[:pos:pos], append([]*gen.Block{cp}, fm.Blocks[pos:]...)...)
				out = append(out, fault{kind: "duplicate-url-path-other-protocol", host: "URL", model: fm, labels: []string{"url:" + b.Path}, focus: []string{"url:" + b.Path}})
			}
		case "method":
			me := b.Method
			fm := cloneModel(m)
			dup := &gen.Block{Kind: "method", Method: &gen.Method{Verb: me.Verb, Path: me.Path, OwnPath: true, Annotation: "again"}}
			fm.Blocks = append(fm.Blocks, dup)
			lab := "method:" + me.Verb + " " + me.Path
			out = append(out, fault{kind: "duplicate-method", host: me.Verb, model: fm, labels: []string{lab}, focus: []string{lab}})
		}
		_ = i
	}
	// duplicate macro names / undefined macro / undefined tag: appended blocks
	{
		fm := cloneModel(m)
		mb := func(n string) *gen.Block {
			return &gen.Block{Kind: "macro", Name: "@dupmacro", MacroBody: []*gen.Block{{Kind: "type", Name: n, Notation: "any"}}}
		}
		fm.Blocks = append(fm.Blocks, mb("@dm1"), mb("@dm2"))
		out = append(out, fault{kind: "duplicate-macro", host: "MACRO", model: fm, labels: []string{"macro:@dupmacro"}})
		fm2 := cloneModel(m)
		fm2.Blocks = append(fm2.Blocks, &gen.Block{Kind: "paste", Name: "@undefinedMacro"})
		out = append(out, fault{kind: "undefined-macro", host: "PASTE", model: fm2, labels: []string{"paste:@undefinedMacro"}})
		fm3 := cloneModel(m)
		fm3.Blocks = append(fm3.Blocks, &gen.Block{Kind: "method", Method: &gen.Method{Verb: "GET", Path: "/undefined/tag", OwnPath: true, Tags: []string{"@undefinedTag"}}})
		out = append(out, fault{kind: "undefined-tag", host: "Tags", model: fm3, labels: []string{"method:GET /undefined/tag"}, focus: []string{"method:GET /undefined/tag"}})
	}
	// ---- text level (direct carrier only) ----
	// a second singleton child: the directive's own text is written twice
	singleton := map[string]bool{"Title": true, "Version": true, "Description": true, "Query": true, "Path": true, "Protocol": true, "Headers": true, "Body": true}
	for _, s := range base.Spans {
		if !singleton[s.Kind] {
			continue
		}
		seg := text[s.Begin-lineIndent(text, s.Begin) : s.FullEnd]
		ft := text[:s.FullEnd] + seg + text[s.FullEnd:]
		host := hostOfLabel(s.Label)
		out = append(out, fault{kind: "second-" + s.Kind, host: host, text: ft, spans: [][2]int{{s.Begin - lineIndent(text, s.Begin), s.FullEnd + len(seg)}, parentRange(base, s)}})
	}
	// an omitted required parameter: the parameters are cut from the directive line
	required := map[string]bool{"TYPE": true, "ENUM": true, "SERVER": true, "TAG": true, "Tags": true, "URL": true, "Title": true, "Version": true, "BaseUrl": true, "Protocol": true, "Method": true, "MACRO": true, "PASTE": true}
	for _, s := range base.Spans {
		if !required[s.Kind] {
			continue
		}
		eol := strings.IndexByte(text[s.Begin:], '\n')
		if eol < 0 {
			continue
		}
		line := text[s.Begin : s.Begin+eol]
		if !strings.Contains(line, " ") {
			continue
		}
		ft := text[:s.Begin] + s.Kind + text[s.Begin+eol:]
		ranges := [][2]int{{s.Begin, s.FullEnd}, parentRange(base, s)}
		// a declaration that loses its name also leaves every use of that name dangling: those directives take part too
		if f := strings.Fields(line); len(f) >= 2 && strings.HasPrefix(f[1], "@") {
			for _, loc := range regexp.MustCompile(regexp.QuoteMeta(f[1])+`\b`).FindAllStringIndex(text, -1) {
				if rg, _ := innermost(base, loc[0]); rg[1] > 0 {
					ranges = append(ranges, rg)
				}
			}
		}
		// the cut shortens the text: ranges behind the cut move
		removed := len(line) - len(s.Kind)
		for i := range ranges {
			if ranges[i][0] > s.Begin {
				ranges[i][0] -= removed
				ranges[i][1] -= removed
			} else if ranges[i][1] > s.Begin {
				ranges[i][1] -= removed
			}
		}
		out = append(out, fault{kind: "missing-parameter", host: s.Kind, text: ft, spans: ranges})
	}
	// (a stand-alone method without its path is not a fault of its own: indentation is immaterial, so the method
	// simply becomes a child of a preceding URL block)
	// appended snippets: faults that need a particular arrangement
	for _, sn := range [][2]string{
		{"undefined-macro-in-unpasted-macro", "MACRO @neverPastedM\n(\n  TYPE @npm any\n  PASTE @noSuchMacroAtAll\n)\n"},
		{"second-Path-not-adjacent", "URL /np/{x}/{y}/{z}\n(\n  Path\n    {\n      \"x\": 1\n    }\n  GET\n  (\n    Path\n      {\n        \"z\": 3\n      }\n    200 any\n  )\n  Path\n    {\n      \"y\": 2\n    }\n)\n"},
		{"tags-name-an-automatic-tag", "GET /autotagseg/a\n  200 any\nGET /autotagseg/b\n  Tags @autotagseg\n  200 any\n"},
		{"enum-in-macro-pasted-twice", "MACRO @twiceEnumM\n(\n  ENUM @twiceEnum\n  [1, 2]\n)\nPASTE @twiceEnumM\nPASTE @twiceEnumM\n"},
		{"type-in-macro-pasted-twice", "MACRO @twiceTypeM\n(\n  TYPE @twiceType any\n)\nPASTE @twiceTypeM\nMACRO @viaM\n(\n  PASTE @twiceTypeM\n)\nPASTE @viaM\n"},
		{"server-in-macro-pasted-twice", "MACRO @twiceSrvM\n(\n  SERVER @twiceSrv\n    BaseUrl \"https://a/\"\n)\nPASTE @twiceSrvM\nPASTE @twiceSrvM\n"},
		{"method-in-macro-pasted-twice", "MACRO @twiceGetM\n(\n  GET /twice/get\n    200 any\n)\nPASTE @twiceGetM\nPASTE @twiceGetM\n"},
		{"similar-paths-root-parameter", "GET /{rootParamA}\n  200 any\nGET /{rootParamB}\n  200 any\n"},
		{"similar-paths-root-parameter-url", "URL /{rootUrlA}/things\n  GET\n    200 any\nURL /{rootUrlB}/things\n  POST\n    Request any\n    200 any\n"},
		{"similar-paths-root-parameter-deeper", "GET /{tenantA}/zzcats/{id}\n  200 any\nPOST /{tenantB}/zzcats/{id}\n  Request any\n  200 any\n"},
		{"duplicate-url-path-rpc-then-http", "URL /zzmixed/one\n  Protocol json-rpc-2.0\n  Method ping\n    Params\n      {}\n    Result\n      {}\nURL /zzmixed/one\n  GET\n    200 any\n"},
		{"duplicate-url-path-http-then-rpc", "URL /zzmixed/two\n  GET\n    200 any\nURL /zzmixed/two\n  Protocol json-rpc-2.0\n  Method ping\n    Params\n      {}\n"},
		{"duplicate-url-path-rpc-then-bare", "URL /zzmixed/three\n  Protocol json-rpc-2.0\n  Method ping\n    Params\n      {}\nURL /zzmixed/three\n"},
		{"duplicate-url-path-bare-then-rpc", "URL /zzmixed/four\nURL /zzmixed/four\n  Protocol json-rpc-2.0\n  Method ping\n    Params\n      {}\n"},
		{"duplicate-url-path-bare-then-bare", "URL /zzmixed/five\nTYPE @zzbetween any\nURL /zzmixed/five\n"},
		{"duplicate-url-path-rpc-then-rpc", "URL /zzmixed/six\n  Protocol json-rpc-2.0\n  Method ping\n    Params\n      {}\nURL /zzmixed/six\n  Protocol json-rpc-2.0\n  Method pong\n    Params\n      {}\n"},
		{"duplicate-url-path-rpc-then-pasted-http", "MACRO @zzmixedM\n(\n  URL /zzmixed/seven\n    GET\n      200 any\n)\nURL /zzmixed/seven\n  Protocol json-rpc-2.0\n  Method ping\n    Params\n      {}\nPASTE @zzmixedM\n"},
		{"second-Headers-under-a-second-Request", "POST /zzsecondrequest\n  Request\n    Headers\n      {\"a\": \"1\"}\n  Request\n    Headers\n      {\"b\": \"2\"}\n    Body any\n  200 any\n"},
		{"second-Headers-under-a-second-Request-pasted", "MACRO @zzsecondHeadersM\n(\n  Headers\n    {\"b\": \"2\"}\n)\nPOST /zzsecondrequestp\n  Request\n    Headers\n      {\"a\": \"1\"}\n  Request\n    PASTE @zzsecondHeadersM\n    Body any\n  200 any\n"},
		{"second-Body-under-a-second-Request", "POST /zzsecondbody\n  Request\n    Body any\n  Request\n    Body empty\n  200 any\n"},
		{"second-Protocol-after-a-Method", "URL /zzprotoafter\n  Method first\n    Params\n      {}\n  Protocol json-rpc-2.0\n  Method second\n    Params\n      {}\n  Protocol json-rpc-2.0\n"},
		{"second-Protocol-after-Tags-and-Method", "TAG @zzpt\nURL /zzprotoafter2\n  Tags @zzpt\n  Method first\n    Params\n      {}\n  Protocol json-rpc-2.0\n  Protocol json-rpc-2.0\n"},
		{"similar-paths-rpc-url-then-method-in-a-big-project", c11Padding + "URL /zzbig1/{id}\n  Protocol json-rpc-2.0\n  Method m\n    Params\n      {}\nGET /zzbig1/{name}\n  200 any\n"},
		{"similar-paths-method-then-bare-url-in-a-big-project", c11Padding + "GET /zzbig2/{name}\n  200 any\nURL /zzbig2/{id}\n"},
		{"similar-paths-url-with-method-then-method-in-a-big-project", c11Padding + "URL /zzbig3/{id}\n  POST\n    Request any\n    200 any\nGET /zzbig3/{name}/more\n  200 any\n"},
		{"duplicate-method-in-a-big-project", c11Padding + "GET /zzbig4/x\n  200 any\nGET /zzbig4/x\n  200 any\n"},
		{"duplicate-type-in-a-big-project", c11Padding + "TYPE @zzpad3 any\n"},
		{"type-without-name-regex", "TYPE regex\n/ab+/\n"},
		{"type-without-name-any", "TYPE any\n"},
		{"type-without-name-empty", "TYPE empty\n"},
		{"type-without-name-jsight", "TYPE jsight\n{}\n"},
		{"enum-without-name-with-annotation", "ENUM // an enum\n[1, 2]\n"},
		{"server-without-name-with-annotation", "SERVER // a server\n  BaseUrl \"https://zz/\"\n"},
		{"duplicate-tag-annotated-like-a-path", "TAG @dupTagP // /cats and everything below\nTAG @dupTagP\n"},
		{"duplicate-tag-annotated-like-a-path-2", "TAG @dupTagQ // /\nTAG @dupTagQ // other\n"},
		{"duplicate-type-annotated", "TYPE @dupTypeA any // @dupTypeA\nTYPE @dupTypeA any // /x\n"},
		{"duplicate-server-annotated", "SERVER @dupSrvA // /srv\n  BaseUrl \"https://a/\"\nSERVER @dupSrvA\n  BaseUrl \"https://b/\"\n"},
		{"second-request-body-regex", "POST /zzregexbody\n  Request\n    Body any\n    Body regex\n    /ab/\n  200 any\n"},
		{"second-response-body-regex", "GET /zzregexresp\n  200\n    Body any\n    Body regex\n    /ab/\n"},
		{"duplicate-enum-without-body-at-end-of-file", "ENUM @eofEnum\n[1, 2]\nENUM @eofEnum"},
		{"enum-without-name-and-body-at-end-of-file", "ENUM"},
		{"enum-without-body-at-end-of-file", "ENUM @eofEnumOnly"},
		{"second-Title-after-empty-Title", "MACRO @unusedInfoM\n(\n  TYPE @uim any\n)\n"}, // placeholder replaced below when there is no INFO
	} {
		if sn[0] == "second-Title-after-empty-Title" {
			if strings.Contains(text, "\nINFO\n") {
				continue
			}
			v := [][2]string{
				{"second-Title-after-empty-Title", "INFO\n  Title \"\"\n  Title \"second\"\n"},
				{"second-Version-after-blank-Version", "INFO\n  Title \"API\"\n  Version \" \"\n  Version \"1.0\"\n"},
				{"second-Version-after-tab-Version", "INFO\n  Version \"\t\"\n  Title \"API\"\n  Version 2\n"},
				{"second-Title-after-blank-Title", "INFO\n  Title \"  \"\n  Version 1\n  Title \"second\"\n"},
				{"second-Version-after-blank-Version-pasted", "MACRO @secondVersionM\n(\n  Version \"1.0\"\n)\nINFO\n  Title \"API\"\n  Version \" \"\n  PASTE @secondVersionM\n"},
			}[r.Intn(5)]
			sn = v
		}
		out = append(out, fault{kind: sn[0], host: "snippet", text: text + sn[1], spans: [][2]int{{len(text), len(text) + len(sn[1])}}})
	}
	// JSIGHT without its version
	out = append(out, fault{kind: "missing-parameter", host: "JSIGHT", text: strings.Replace(text, "JSIGHT 0.3", "JSIGHT", 1), spans: [][2]int{{0, 10}}})
	// a reference to an undefined type: every usage of a type name (not its declaration)
	for _, loc := range refRe.FindAllStringIndex(text, -1) {
		before := text[:loc[0]]
		if strings.HasSuffix(before, "TYPE ") {
			continue
		}
		ft := text[:loc[0]] + "@undefinedT" + text[loc[1]:]
		sp, host := innermost(base, loc[0])
		sp[1] += 16 // the replacement is longer than the name
		out = append(out, fault{kind: "undefined-type", host: host, text: ft, spans: [][2]int{sp}})
	}
	for _, loc := range enumRuleRe.FindAllStringSubmatchIndex(text, -1) {
		ft := text[:loc[2]] + "@undefinedE" + text[loc[3]:]
		sp, host := innermost(base, loc[2])
		sp[1] += 16
		out = append(out, fault{kind: "undefined-enum", host: host, text: ft, spans: [][2]int{sp}})
	}
	return out
}

// c11Padding: thirty declarations in front, for faults that may depend on the size of the project
var c11Padding = func() string {
	var sb strings.Builder
	for i := 0; i < 30; i++ {
		fmt.Fprintf(&sb, "TYPE @zzpad%d any\n", i)
	}
	return sb.String()
}()

func lineIndent(text string, at int) int {
	n := 0
	for at-n-1 >= 0 && (text[at-n-1] == ' ' || text[at-n-1] == '\t') {
		n++
	}
	return n
}

func hostOfLabel(label string) string {
	if i := strings.LastIndex(label, "/"); i > 0 {
		p := label[:i]
		if j := strings.Index(p, ":"); j > 0 {
			return p[:j] + ">" + label[i+1:]
		}
		return p + ">" + label[i+1:]
	}
	return label
}

// parentRange: the span of the enclosing directive (a diagnostic about a repeated child may name the parent).
func parentRange(rd *gen.Rendered, s gen.Span) [2]int {
	best := [2]int{s.Begin, s.FullEnd}
	bestLen := -1
	for _, p := range rd.Spans {
		if p.Begin < s.Begin && p.FullEnd >= s.FullEnd && p.Depth == s.Depth-1 {
			if bestLen == -1 || p.FullEnd-p.Begin < bestLen {
				bestLen = p.FullEnd - p.Begin
				best = [2]int{p.Begin, p.End}
			}
		}
	}
	return best
}

// innermost returns the own-lines range of the innermost directive that contains the offset.
func innermost(rd *gen.Rendered, off int) ([2]int, string) {
	best := [2]int{0, 0}
	kind := "?"
	bestLen := -1
	for _, s := range rd.Spans {
		if s.Begin <= off && off < s.End {
			if bestLen == -1 || s.End-s.Begin < bestLen {
				bestLen = s.End - s.Begin
				best = [2]int{s.Begin, s.End}
				kind = s.Kind
			}
		}
	}
	return best, kind
}

func c11Eval(t *fw.T, c *fw.Case) {
	m, r := modelOf(c, c11Opt)
	base := gen.Render(m, nil)
	db := run.Single([]byte(base.Text))
	db.FixedSeed = true
	ob := t.Exec(db)
	if ob.Outcome != run.Accepted {
		t.Count("base_not_accepted")
		return
	}
	t.Count("accepted_bases")
	faults := buildFaults(m, base, r)
	limit := t.Pick(14, 40)
	perm := r.Perm(len(faults))
	// every kind at least once, then a sample of the positions
	seenKind := map[string]bool{}
	var chosen []fault
	for _, i := range perm {
		if !seenKind[faults[i].kind+faults[i].host] {
			seenKind[faults[i].kind+faults[i].host] = true
			chosen = append(chosen, faults[i])
		}
	}
	for _, i := range perm {
		if len(chosen) >= limit {
			break
		}
		chosen = append(chosen, faults[i])
	}
	for _, f := range chosen {
		carriers := []string{"direct"}
		if f.model != nil && len(f.focus) > 0 {
			carriers = append(carriers, "paste", "include")
		}
		for _, carrier := range carriers {
			var d run.Doc
			var rd *gen.Rendered
			switch carrier {
			case "direct":
				if f.model != nil {
					rd = gen.Render(f.model, nil)
					d = run.Single([]byte(rd.Text))
				} else {
					d = run.Single([]byte(f.text))
				}
			default:
				mode := map[string]string{"paste": "macro", "include": "include"}[carrier]
				focus := map[string]bool{}
				for _, l := range f.focus {
					focus[l] = true
				}
				hook := func(label, kind string, depth int) string {
					if depth == 0 && focus[label] {
						return mode
					}
					return ""
				}
				rd = gen.RenderWith(f.model, gen.RenderOpts{Paste: hook})
				files := map[string][]byte{"root.jst": []byte(rd.Text)}
				for k, v := range rd.Files {
					files[k] = []byte(v)
				}
				d = run.Doc{Files: files, Root: "root.jst"}
				if carrier == "paste" && !strings.Contains(rd.Text, "PASTE") {
					continue // a kind a MACRO does not admit
				}
				if carrier == "include" && len(rd.Files) == 0 {
					continue
				}
			}
			d.FixedSeed = true
			o := t.Exec(d)
			t.Count("faults_injected")
			if o.Outcome != run.Rejected {
				c.Docs = []run.Doc{db, d}
				t.Violation("fault-accepted:"+f.kind+":"+f.host+":"+carrier, fmt.Sprintf("fault %s (host %s, carrier %s) is not rejected: %s\n--- faulty document\n%s", f.kind, f.host, carrier, describe(o), d.Files[d.Root]))
				continue
			}
			if run.RuntimeFaultText(o.ErrText) {
				continue // C01's business
			}
			t.Distinct(f.kind + " " + carrier + " " + f.host)
			if carrier != "direct" {
				continue
			}
			// the same faulty document with the other line-end conventions: a fault stays a fault
			if (c.Index+len(f.kind))%3 == 0 {
				for _, nl := range []string{"\r\n", "\r"} {
					dn := run.Single([]byte(strings.ReplaceAll(string(d.Files[d.Root]), "\n", nl)))
					dn.FixedSeed = true
					on := t.Exec(dn)
					t.Count("faults_injected")
					t.Count("faults_in_other_line_end_styles")
					if on.Outcome != run.Rejected {
						c.Docs = []run.Doc{db, dn}
						t.Violation("fault-accepted:"+f.kind+":"+f.host+":"+map[string]string{"\r\n": "CRLF", "\r": "CR"}[nl], fmt.Sprintf("fault %s (host %s) is rejected with LF line ends but not with %q: %s\n--- faulty document\n%q", f.kind, f.host, nl, describe(on), dn.Files[dn.Root]))
						break
					}
				}
			}
			// location: inside a participant
			var ranges [][2]int
			ranges = append(ranges, f.spans...)
			if rd != nil {
				for _, l := range f.labels {
					for _, s := range spanOf(rd, l) {
						ranges = append(ranges, [2]int{s.Begin, s.FullEnd})
					}
				}
			}
			inside := false
			for _, rg := range ranges {
				if int(o.Index) >= rg[0] && int(o.Index) <= rg[1] {
					inside = true
				}
			}
			t.Count("locations_checked")
			if !inside {
				c.Docs = []run.Doc{db, d}
				t.Violation("fault-located-elsewhere:"+f.kind+":"+f.host, fmt.Sprintf("fault %s (host %s): the diagnostic %q points to index %d (line %d, %q), outside every directive that takes part in the fault %v\n--- faulty document\n%s",
					f.kind, f.host, o.Msg, o.Index, o.Line, o.Quote, ranges, d.Files[d.Root]))
			}
		}
	}
	t.Sample("faults", map[string]interface{}{"base": base.Text, "faults_applicable": len(faults)})
}
