package checks

import (
	"bytes"
	"fmt"
	"strings"

	"github.com/jsightapi/jsight-schema-go-library/fs"
	"github.com/jsightapi/jsight-schema-go-library/notations/jschema"
	"github.com/jsightapi/jsight-schema-go-library/rules/enum"

	"github.com/jsightapi/jsight-api-go-library/directive"
	"github.com/jsightapi/jsight-api-go-library/scanner"

	"verifharness/internal/corpus"
	"verifharness/internal/fw"
	"verifharness/internal/mut"
	"verifharness/internal/xrand"
)

func init() {
	fw.Register(&fw.Check{
		ID:    "C14",
		Level: "exploration",
		Rule: "each case is one byte string fed to the real scanner (scanner.NewJApiScanner(f).Next() until EOF or error) under recover(); " +
			"on inputs read without error the lexeme stream is checked: bounds, no overlap, increasing positions, keyword known to the directive table, " +
			"schema/enum body length equal to the schema library's own Len() from the first byte, regex body delimited by unescaped '/', " +
			"and every gap between lexemes decomposes into trivia (whitespace, line ends, # comments, ### blocks, annotation delimiters). " +
			"families: corpus x {LF,CRLF,CR}; all token sequences up to the bound x 3 joiners; sampled longer sequences; coverage-guided mutants (kept when they reach a new scanner (state, byte-class) pair). " +
			"distinct_nontrivial = distinct lexeme-type sequences (first 12 lexemes) of error-free scans",
		Assumptions: []string{
			"the schema library's Len() is the reference for where a schema/enum value ends (the property delegates to it)",
			"empty lexemes [b, b-1] are legitimate (e.g. an annotation '//' without text)",
		},
		Families: []fw.Family{
			{Name: "corpus", N: func(string) int { return len(corpus.All()) * 3 }, Gen: c01GenCorpus, Eval: c14Eval},
			{Name: "tokens", Stream: c14StreamTokens, Eval: c14Eval},
			{Name: "tokens_rand", N: constN(400000, 4000000), Gen: c01GenTokensRand, Eval: c14Eval},
			{Name: "guided", Stream: c14StreamGuided, Eval: c14Eval},
		},
		Floors: map[string]int64{"scanned_ok": 2000, "lexemes_checked": 20000},
	})
}

type lexObs struct {
	typ        scanner.LexemeType
	begin, end int
}

// scanAll runs the real scanner to the end. It returns the lexemes, an error text (scanner diagnostic) and a panic value.
func scanAll(data []byte) (lex []lexObs, errText string, panicVal interface{}, steps int) {
	defer func() {
		if r := recover(); r != nil {
			panicVal = r
		}
	}()
	s := scanner.NewJApiScanner(fs.NewFile("/verif-nonexistent/root.jst", data))
	for {
		l, je := s.Next()
		if je != nil {
			return lex, je.Error(), nil, s.VerifSteps()
		}
		if l == nil {
			return lex, "", nil, s.VerifSteps()
		}
		lex = append(lex, lexObs{typ: l.Type(), begin: int(l.Begin()), end: int(l.End())})
		if len(lex) > len(data)+8 {
			return lex, "", fmt.Sprintf("more lexemes (%d) than bytes (%d)", len(lex), len(data)), s.VerifSteps()
		}
	}
}

// triviaOK decides whether a gap decomposes into trivia. A "###" may open a block comment or, where the
// scanner was already inside a line comment, be ordinary comment text: both readings are tried.
func triviaOK(g []byte) (bool, int) {
	far := 0
	var rec func(i int) bool
	rec = func(i int) bool {
		for i < len(g) {
			if i > far {
				far = i
			}
			c := g[i]
			switch {
			case c == ' ' || c == '\t' || c == '\r' || c == '\n':
				i++
			case c == '#':
				if bytes.HasPrefix(g[i:], []byte("###")) {
					if j := bytes.Index(g[i+3:], []byte("###")); j >= 0 {
						if rec(i + 3 + j + 3) {
							return true
						}
					}
				}
				for i < len(g) && g[i] != '\n' && g[i] != '\r' {
					i++
				}
			case c == '/' && i+1 < len(g) && (g[i+1] == '/' || g[i+1] == '*'):
				i += 2
			case c == '*' && i+1 < len(g) && g[i+1] == '/':
				i += 2
			default:
				return false
			}
		}
		return true
	}
	if rec(0) {
		return true, 0
	}
	return false, far
}

func regexBodyOK(b []byte) bool {
	if len(b) < 3 || b[0] != '/' || b[len(b)-1] != '/' {
		return false
	}
	in := b[1 : len(b)-1]
	for i := 0; i < len(in); i++ {
		if in[i] == '\\' {
			i++
			if i >= len(in) {
				return false // the closing '/' would be escaped
			}
			continue
		}
		if in[i] == '/' {
			return false
		}
	}
	return true
}

func safeLen(f func() (uint, error)) (l uint, err error) {
	defer func() {
		if r := recover(); r != nil {
			err = fmt.Errorf("panic: %v", r)
		}
	}()
	return f()
}

func c14Eval(t *fw.T, c *fw.Case) {
	data := c.Docs[0].Files[c.Docs[0].Root]
	c14Check(t, data)
}

func c14Check(t *fw.T, data []byte) {
	lex, errText, pv, _ := scanAll(data)
	if pv != nil {
		// crashes are C01's business; here they only mean "not read without error"
		t.Count("scan_panicked")
		t.Sample("scan_panicked (C01's business)", map[string]interface{}{"input": fw.Short(data, 300), "panic": fmt.Sprint(pv)})
		return
	}
	if errText != "" {
		t.Count("scan_error")
		return
	}
	t.Count("scanned_ok")
	n := len(data)
	var seq strings.Builder
	prevEnd := -1
	prevBegin := -1
	lastKeyword := ""
	for i, l := range lex {
		t.Count("lexemes_checked")
		if i < 12 {
			seq.WriteString(l.typ.String())
			seq.WriteByte(' ')
		}
		if l.begin > n || l.end >= n || l.end < l.begin-1 || l.begin < 0 {
			t.Violation(fmt.Sprintf("bounds:%s", l.typ), fmt.Sprintf("lexeme %s [%d,%d] is outside the input (len %d) or ends before it begins; input %s",
				l.typ, l.begin, l.end, n, fw.Short(data, 300)))
			return
		}
		if l.begin <= prevEnd || l.begin < prevBegin || (l.begin == prevBegin && l.end <= prevEnd) {
			t.Violation(fmt.Sprintf("order:%s", l.typ), fmt.Sprintf("lexeme %s [%d,%d] overlaps or does not follow the previous one [%d,%d]; input %s",
				l.typ, l.begin, l.end, prevBegin, prevEnd, fw.Short(data, 300)))
			return
		}
		// the gap before this lexeme
		if ok, at := triviaOK(data[prevEnd+1 : l.begin]); !ok {
			t.Violation("gap:"+gapClass(data[prevEnd+1:l.begin], at), fmt.Sprintf("bytes %d..%d belong to no lexeme and are not trivia: %s (offending byte at +%d); input %s",
				prevEnd+1, l.begin-1, fw.Short(data[prevEnd+1:l.begin], 120), at, fw.Short(data, 300)))
			return
		}
		val := data[l.begin : l.end+1]
		switch l.typ {
		case scanner.Keyword:
			lastKeyword = string(val)
			if _, err := directive.NewDirectiveType(lastKeyword); err != nil {
				t.Violation("keyword-unknown", fmt.Sprintf("keyword lexeme %q is not a directive the table knows; input %s", val, fw.Short(data, 300)))
				return
			}
		case scanner.Schema:
			rest := data[l.begin:]
			want, err := safeLen(func() (uint, error) { return jschema.FromFile(fs.NewFile("", rest)).Len() })
			if err != nil || int(want) != len(val) {
				t.Violation("schema-length", fmt.Sprintf("schema lexeme [%d,%d] has length %d but the schema library delimits %d (err=%v); input %s",
					l.begin, l.end, len(val), want, err, fw.Short(data, 300)))
				return
			}
			t.Count("schema_bodies_checked")
		case scanner.Enum:
			rest := data[l.begin:]
			want, err := safeLen(func() (uint, error) { return enum.FromFile(fs.NewFile("", rest)).Len() })
			if err != nil || int(want) != len(val) {
				t.Violation("enum-length", fmt.Sprintf("enum lexeme [%d,%d] has length %d but the schema library delimits %d (err=%v); input %s",
					l.begin, l.end, len(val), want, err, fw.Short(data, 300)))
				return
			}
			t.Count("enum_bodies_checked")
		case scanner.Annotation:
			// an annotation is one annotation: a // text stops at the line end, a /* text stops at the first */
			k := l.begin - 1
			for k >= 0 && (data[k] == ' ' || data[k] == '\t' || data[k] == '\n' || data[k] == '\r') {
				k--
			}
			if k >= 1 && data[k-1] == '/' && data[k] == '*' && bytes.Contains(val, []byte("*/")) {
				t.Violation("annotation-runs-on", fmt.Sprintf("annotation lexeme %s contains the terminator of a multi-line annotation; input %s", fw.Short(val, 80), fw.Short(data, 300)))
				return
			}
			if k >= 1 && data[k-1] == '/' && data[k] == '/' && bytes.ContainsAny(val, "\n\r") {
				t.Violation("annotation-runs-on", fmt.Sprintf("one-line annotation lexeme %s spans a line end; input %s", fw.Short(val, 80), fw.Short(data, 300)))
				return
			}
			t.Count("annotations_checked")
		case scanner.Text:
			if lastKeyword != "Description" {
				if !regexBodyOK(val) {
					t.Violation("regex-delimiters", fmt.Sprintf("regex body lexeme %s is not one /…/ value; input %s", fw.Short(val, 80), fw.Short(data, 300)))
					return
				}
				t.Count("regex_bodies_checked")
			}
		}
		if l.end >= l.begin {
			prevEnd = l.end
		}
		prevBegin = l.begin
	}
	if ok, at := triviaOK(data[prevEnd+1:]); !ok {
		t.Violation("gap:"+gapClass(data[prevEnd+1:], at), fmt.Sprintf("trailing bytes %d.. belong to no lexeme and are not trivia: %s; input %s",
			prevEnd+1, fw.Short(data[prevEnd+1:], 120), fw.Short(data, 300)))
		return
	}
	if len(lex) > 0 {
		t.Distinct(seq.String())
		t.Sample("lexemes", map[string]interface{}{"input": fw.Short(data, 160), "lexemes": fmt.Sprint(lex)})
	}
}

func gapClass(g []byte, at int) string {
	if at < len(g) {
		c := g[at]
		switch {
		case c >= 'a' && c <= 'z' || c >= 'A' && c <= 'Z':
			return "letter"
		case c >= '0' && c <= '9':
			return "digit"
		default:
			return fmt.Sprintf("byte-%q", c)
		}
	}
	return "?"
}

func c14StreamTokens(t *fw.T, shard, nshards int, emit func(*fw.Case)) {
	toks := mut.Tokens
	maxL := t.Pick(3, 3)
	n := 0
	var rec func(prefix []string, depth int)
	rec = func(prefix []string, depth int) {
		if depth > 0 {
			for _, j := range mut.Joiners {
				n++
				if n%nshards != shard {
					emit(nil)
					continue
				}
				emit(oneDocCase([]byte(strings.Join(prefix, j)), "", "token sequence"))
			}
		}
		if depth == maxL {
			return
		}
		for _, tk := range toks {
			rec(append(prefix, tk), depth+1)
		}
	}
	rec(nil, 0)
}

// c14StreamGuided is a deterministic coverage-feedback loop: a mutant that makes the scanner visit a new
// (state, byte class) pair joins the parent pool.
func c14StreamGuided(t *fw.T, shard, nshards int, emit func(*fw.Case)) {
	budget := t.Pick(600000, 12000000) / nshards
	r := xrand.Derive(t.Seed, shard, "C14", "guided")
	small := corpus.Small(3000)
	var pool [][]byte
	for i := shard; i < len(small); i += nshards {
		pool = append(pool, small[i].Content)
	}
	if len(pool) == 0 {
		pool = append(pool, []byte("JSIGHT 0.3\n"))
	}
	cov := scanner.VerifCoverageCount()
	for i := 0; i < budget; i++ {
		var parent []byte
		if r.Chance(1, 3) && len(pool) > 8 {
			parent = pool[len(pool)-1-r.Intn(8)] // favour recent finds
		} else {
			parent = pool[r.Intn(len(pool))]
		}
		other := small[r.Intn(len(small))].Content
		m := mut.Mutate(r, parent, other)
		if len(m) > 6000 {
			m = m[:6000]
		}
		emit(oneDocCase(m, "", "guided mutant"))
		if nc := scanner.VerifCoverageCount(); nc > cov {
			cov = nc
			pool = append(pool, m)
			t.Count("guided_new_coverage")
		}
	}
}
