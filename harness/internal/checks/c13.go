package checks

import (
	"fmt"
	"strings"

	"verifharness/internal/fw"
	"verifharness/internal/gen"
	"verifharness/internal/jsonx"
	"verifharness/internal/run"
	"verifharness/internal/xrand"
)

func init() {
	fw.Register(&fw.Check{
		ID:    "C13",
		Level: "exploration",
		Rule: "random path trees (1-5 segments, 0-3 parameters, prefixes shared between URL blocks and stand-alone methods, parameters named after their depth so that no 'similar paths' arise) with Path directives placed under URL blocks or under methods, " +
			"each parameter declared at most once for its prefix and possibly by a directive whose own path is shorter or longer than the paths that use it; scalar, noted, ruled and type-referencing parameter schemas. " +
			"In the accepted catalog the pathVariables of every HTTP interaction must list exactly the {name} segments whose prefix some Path directive declares, in path order, each with the declared schema (reference: 15 lines from the statement, via the model projector); interactions without declared parameters have none. " +
			"Faulty variants of each document: a Path property matching no segment, a parameter declared twice for one prefix, an empty {} segment, a repeated {name} in one path, a Path body that is not an object, a nested (object/array) property - each must be rejected. " +
			"distinct_nontrivial = distinct (path shapes, declaring sites, outcome)",
		Assumptions: []string{"JSON-RPC interactions never carry pathVariables (the catalog format has none for them)"},
		Families: []fw.Family{
			{Name: "trees", N: constN(2500, 80000), Gen: genModelCase, Eval: c13Eval},
			{Name: "shared-path-file", N: constN(800, 25000), Gen: func(r *xrand.Rand, idx int, tier string) *fw.Case {
				return &fw.Case{Docs: []run.Doc{{}}}
			}, Eval: c13EvalShared},
		},
		Floors: map[string]int64{"catalogs_compared": 1500, "path_variable_sets_checked": 4000, "faulty_variants_checked": 8000},
	})
}

func c13Model(r *xrand.Rand) (*gen.Model, string) {
	m := &gen.Model{}
	// scalar user types for references
	m.Blocks = append(m.Blocks,
		&gen.Block{Kind: "type", Name: "@id", Notation: "jsight", Schema: &gen.SNode{Kind: "int", Val: "7"}},
		&gen.Block{Kind: "type", Name: "@slug", Notation: "regex", Regex: "[a-z]+"},
		&gen.Block{Kind: "type", Name: "@name", Notation: "jsight", Schema: &gen.SNode{Kind: "string", Val: "x"}})
	segNames := []string{"a", "b", "c"}
	mkPath := func(base string, extra int) string {
		p := base
		depth := strings.Count(base, "/")
		for i := 0; i < extra; i++ {
			depth++
			if r.Chance(2, 5) {
				p += fmt.Sprintf("/{p%d}", depth)
			} else {
				p += "/" + segNames[r.Intn(3)]
			}
		}
		return p
	}
	var paths []string
	used := map[string]bool{}
	roots := []string{"/" + segNames[r.Intn(3)], "/" + segNames[r.Intn(3)] + "/{p2}"}
	np := r.Range(2, 6)
	for i := 0; i < np; i++ {
		base := roots[r.Intn(2)]
		if len(paths) > 0 && r.Chance(1, 2) {
			base = paths[r.Intn(len(paths))] // extend an existing path: shared prefix
		}
		p := mkPath(base, r.Range(0, 3))
		if strings.Count(p, "/") > 5 || used[p] {
			continue
		}
		used[p] = true
		paths = append(paths, p)
	}
	if len(paths) == 0 {
		paths = []string{"/a/{p2}"}
	}
	declared := map[string]bool{}
	var pathTypes []*gen.Block
	forms := ""
	declFor := func(path string) *gen.SNode {
		prefixes, names := gen.PathParams(path)
		var props []*gen.SProp
		for i := range names {
			if declared[prefixes[i]] || !r.Chance(1, 2) {
				continue
			}
			declared[prefixes[i]] = true
			var n *gen.SNode
			switch r.Intn(6) {
			case 0:
				n = &gen.SNode{Kind: "ref", Ref: "@id"}
			case 1:
				n = &gen.SNode{Kind: "ref", Ref: "@slug"}
			case 2:
				n = &gen.SNode{Kind: "string", Val: "abc", Note: "a note"}
			case 3:
				lo := 1
				n = &gen.SNode{Kind: "int", Val: "12", Min: &lo}
			case 4:
				n = &gen.SNode{Kind: "or", Or: []string{"@id", "@name"}}
			default:
				n = &gen.SNode{Kind: "int", Val: fmt.Sprint(r.Range(1, 999))}
			}
			if r.Chance(1, 5) { // an explicit or-rule mixing built-in and user types
				if r.Bool() {
					n = &gen.SNode{Kind: "int", Val: "3", OrAlts: []string{"integer", "@name"}}
				} else {
					n = &gen.SNode{Kind: "string", Val: "abc", OrAlts: []string{"@name", "@slug"}}
				}
				if r.Chance(1, 3) {
					n.OrAlts = []string{"string", "@slug", "@id"}
					n.Kind, n.Val = "string", "abc"
				}
			}
			props = append(props, &gen.SProp{Key: names[i], Node: n})
		}
		if len(props) == 0 {
			return nil
		}
		decl := &gen.SNode{Kind: "object", Props: props}
		// the other forms of a Path body: a reference to an object type, an object that inherits some of the parameters
		if r.Chance(2, 5) {
			var extra []*gen.Block
			form := r.Range(1, 2)
			decl, extra = gen.SplitPathDecl(decl, form, r.Range(1, len(props)), fmt.Sprintf("@pathT%d", len(pathTypes)))
			pathTypes = append(pathTypes, extra...)
			forms += []string{"", "R", "A"}[form]
		}
		return decl
	}
	sites := ""
	verbs := []string{"GET", "POST", "PUT", "PATCH", "DELETE"}
	var blocks []*gen.Block
	for _, p := range paths {
		if r.Chance(3, 5) {
			b := &gen.Block{Kind: "url", Path: p}
			if r.Chance(1, 2) {
				b.PathDecl = declFor(p)
				if b.PathDecl != nil {
					sites += "U"
				}
			}
			perm := r.Perm(5)
			for k := r.Range(1, 3); k > 0; k-- {
				me := &gen.Method{Verb: verbs[perm[k]], Path: p, Responses: []*gen.Response{{Code: "200", Body: gen.Body{Form: "any"}}}}
				if r.Chance(1, 3) {
					me.Description, me.DescFirst = []string{"about this method", "second line"}, true
				}
				if r.Chance(1, 3) {
					me.PathDecl = declFor(p)
					if me.PathDecl != nil {
						sites += "m"
					}
				}
				b.Methods = append(b.Methods, me)
			}
			blocks = append(blocks, b)
		} else {
			me := &gen.Method{Verb: verbs[r.Intn(5)], Path: p, OwnPath: true, Responses: []*gen.Response{{Code: "200", Body: gen.Body{Form: "any"}}}}
			if r.Chance(1, 3) {
				me.Description, me.DescFirst = []string{"about this method"}, true
			}
			if r.Chance(1, 2) {
				me.PathDecl = declFor(p)
				if me.PathDecl != nil {
					sites += "M"
				}
			}
			blocks = append(blocks, &gen.Block{Kind: "method", Method: me})
		}
	}
	blocks = append(blocks, pathTypes...)
	for _, i := range r.Perm(len(blocks)) {
		m.Blocks = append(m.Blocks, blocks[i])
	}
	return m, fmt.Sprintf("paths%d params%d sites[%s] forms[%s]", len(paths), strings.Count(strings.Join(paths, ""), "{"), sites, forms)
}

func c13Eval(t *fw.T, c *fw.Case) {
	_, r := modelOf(c, gen.Options{MaxBlocks: 1})
	m, shape := c13Model(r)
	st := gen.RandomStyle(r.Fork())
	rd := gen.Render(m, st)
	d := run.Single([]byte(rd.Text))
	d.FixedSeed = true
	c.Docs = []run.Doc{d}
	o := t.Exec(d)
	if o.Outcome != run.Accepted {
		t.Violation("valid-path-tree-rejected:"+outcomeSig(o), fmt.Sprintf("a valid path tree is not accepted: %s\n%s", describe(o), gen.Render(m, nil).Text))
		return
	}
	got, err := jsonx.Parse(o.JSON)
	if err != nil {
		return
	}
	t.Count("catalogs_compared")
	if diff := gen.DiffCatalog(gen.Expected(m), got.Root, "$"); diff != "" {
		t.Violation("path-variables-differ:"+diffClass(diff), fmt.Sprintf("%s\n%s", diff, gen.Render(m, nil).Text))
		return
	}
	in := got.Root.Get("interactions")
	for i := range in.Keys {
		t.Count("path_variable_sets_checked")
		if in.Vals[i].Has("pathVariables") {
			t.Count("interactions_with_path_variables")
		}
	}
	t.Distinct(shape)
	t.Sample("tree", map[string]interface{}{"shape": shape, "document": gen.Render(m, nil).Text})
	// faulty variants (canonical text surgery on the model)
	base := gen.Render(m, nil).Text
	type variant struct{ kind, text string }
	var vs []variant
	// a property that matches no segment
	if i := strings.Index(base, "Path\n"); i >= 0 {
		j := strings.Index(base[i:], "{\n")
		if j > 0 {
			vs = append(vs, variant{"property-without-segment", base[:i+j+2] + "      \"nosuchsegment\": 1,\n" + base[i+j+2:]})
		}
	}
	// declared twice for one prefix: a stand-alone method on a longer path declares an already declared parameter again
	decl := m.DeclaredPathProps()
	for prefix, pr := range decl {
		longer := "/" + prefix + "/again"
		vs = append(vs, variant{"declared-twice", base + fmt.Sprintf("GET %s\n  Path\n    {\n      \"%s\": 5\n    }\n  200 any\n", longer, pr.Key)})
		break
	}
	// the same double declaration when both declarations are pastes of one macro: the two copies have one source position
	// and must still count as two declarations, exactly as when the Path is written out twice by hand (seeded change C13-Q)
	const zzPathMacro = "MACRO @zzPathMacro\n(\n  Path\n    {\n      \"zid\": 12\n    }\n)\n"
	vs = append(vs, variant{"declared-twice-by-one-macro:url-and-longer-method", base + zzPathMacro + "URL /zzm/{zid}\n  PASTE @zzPathMacro\n  GET\n    200 any\nGET /zzm/{zid}/toys\n  PASTE @zzPathMacro\n  200 any\n"})
	vs = append(vs, variant{"declared-twice-by-one-macro:two-methods", base + "GET /zzn/{zid}\n  PASTE @zzPathMacro\n  200 any\nPOST /zzn/{zid}/more\n  PASTE @zzPathMacro\n  200 any\n" + zzPathMacro})
	vs = append(vs, variant{"declared-twice-by-one-macro:two-urls", base + zzPathMacro + "URL /zzo/{zid}\n  PASTE @zzPathMacro\n  GET\n    200 any\nURL /zzo/{zid}/more\n  PASTE @zzPathMacro\n  GET\n    200 any\n"})
	vs = append(vs, variant{"declared-twice-by-nested-macro", base + zzPathMacro + "MACRO @zzOuter\n(\n  PASTE @zzPathMacro\n  200 any\n)\nGET /zzp/{zid}\n  PASTE @zzOuter\nPUT /zzp/{zid}/more\n  PASTE @zzOuter\n"})
	vs = append(vs, variant{"empty-parameter", base + "GET /zz/{}/x\n  200 any\n"})
	vs = append(vs, variant{"empty-parameter-first-segment", base + "GET /{}/zzx\n  200 any\n"})
	vs = append(vs, variant{"empty-parameter-only-segment-url", base + "URL /{}\n  GET\n    200 any\n"})
	vs = append(vs, variant{"empty-parameter-first-segment-with-path", base + "GET /{}/zzusers/{zid}\n  Path\n    {\n      \"zid\": 1\n    }\n  200 any\n"})
	vs = append(vs, variant{"empty-parameter-last-segment-trailing-slash", base + "GET /zzt/{}/\n  200 any\n"})
	vs = append(vs, variant{"repeated-parameter", base + "GET /zz/{q}/x/{q}\n  200 any\n"})
	// a repeated {name} that is not the path's first parameter, with and without declarations (seeded change C13-S)
	vs = append(vs, variant{"repeated-parameter:second-and-third", base + "GET /zzr/{p}/x/{q}/y/{q}\n  200 any\n"})
	vs = append(vs, variant{"repeated-parameter:last-two-adjacent", base + "GET /zzs/{p}/{r}/{q}/{q}\n  200 any\n"})
	vs = append(vs, variant{"repeated-parameter:second-and-third-declared", base + "GET /zzt9/{p}/x/{q}/y/{q}\n  Path\n    {\n      \"p\": 1,\n      \"q\": 2\n    }\n  200 any\n"})
	vs = append(vs, variant{"repeated-parameter:second-and-third-url", base + "URL /zzu/{p}/x/{q}/y/{q}\n  GET\n    200 any\n"})
	vs = append(vs, variant{"repeated-parameter:first-and-last-of-three", base + "GET /zzv/{q}/x/{p}/y/{q}\n  200 any\n"})
	vs = append(vs, variant{"path-body-not-object", base + "GET /zy/{q}\n  Path\n    [1]\n  200 any\n"})
	vs = append(vs, variant{"path-body-scalar", base + "GET /zy/{q}\n  Path\n    5\n  200 any\n"})
	vs = append(vs, variant{"nested-object-property", base + "GET /zx/{q}\n  Path\n    {\n      \"q\": {\"a\": 1}\n    }\n  200 any\n"})
	vs = append(vs, variant{"nested-array-property", base + "GET /zx/{q}\n  Path\n    {\n      \"q\": [1]\n    }\n  200 any\n"})
	vs = append(vs, variant{"empty-path-object", base + "GET /zw/{q}\n  Path\n    {}\n  200 any\n"})
	vs = append(vs, variant{"path-body-regex-type", base + "GET /zv/{q}\n  Path\n    @slug\n  200 any\n"})
	vs = append(vs, variant{"or-with-object-type", base + "TYPE @objForOr\n  {\"a\": 1}\nGET /zt/{q}\n  Path\n    {\n      \"q\": 1 // {or: [{type: \"integer\"}, \"@objForOr\"]}\n    }\n  200 any\n"})
	vs = append(vs, variant{"or-with-object-type-before-another-rule", base + "TYPE @objForOr2\n  {\"a\": 1}\nGET /zt2/{q}\n  Path\n    {\n      \"q\": \"abc\" // {or: [\"@name\", \"@objForOr2\"], optional: true}\n    }\n  200 any\n"})
	vs = append(vs, variant{"or-with-array-type-between-other-rules", base + "TYPE @arrForOr3\n  [1]\nGET /zt3/{q}\n  Path\n    {\n      \"q\": \"abc\" // {optional: true, or: [\"@name\", \"@arrForOr3\"], nullable: false}\n    }\n  200 any\n"})
	vs = append(vs, variant{"type-rule-object-type-before-another-rule", base + "TYPE @objForType4\n  {\"a\": 1}\nGET /zt4/{q}\n  Path\n    {\n      \"q\": {\"a\": 1} // {type: \"@objForType4\", optional: true}\n    }\n  200 any\n"})
	vs = append(vs, variant{"reference-to-object-type", base + "TYPE @objRef1\n  {\"a\": 1}\nGET /zs/{q}\n  Path\n    {\n      \"q\": @objRef1\n    }\n  200 any\n"})
	vs = append(vs, variant{"reference-to-array-type", base + "TYPE @arrRef1\n  [1]\nGET /zr/{q}\n  Path\n    {\n      \"q\": @arrRef1\n    }\n  200 any\n"})
	vs = append(vs, variant{"alias-of-object-type", base + "TYPE @objRef2\n  {\"a\": 1}\nTYPE @aliasRef2\n  @objRef2\nGET /zq/{q}\n  Path\n    {\n      \"q\": @aliasRef2\n    }\n  200 any\n"})
	vs = append(vs, variant{"alias-in-type-list", base + "TYPE @objRef3\n  [1, 2]\nTYPE @aliasRef3\n  @objRef3\nGET /zp/{q}\n  Path\n    {\n      \"q\": @name | @aliasRef3\n    }\n  200 any\n"})
	vs = append(vs, variant{"object-type-in-type-list", base + "TYPE @objRef4\n  {\"a\": 1}\nGET /zo/{q}\n  Path\n    {\n      \"q\": @name | @objRef4\n    }\n  200 any\n"})
	vs = append(vs, variant{"empty-object-typed-any", base + "GET /zn/{q}\n  Path\n    {\n      \"q\": {} // {type: \"any\"}\n    }\n  200 any\n"})
	vs = append(vs, variant{"empty-array-typed-any", base + "GET /zm/{q}\n  Path\n    {\n      \"q\": [] // {type: \"any\"}\n    }\n  200 any\n"})
	vs = append(vs, variant{"path-in-parameterless-url", base + "URL /zl\n  Path\n    {\n      \"q\": 1\n    }\n  GET\n    200 any\n"})
	vs = append(vs, variant{"path-under-method-of-parameterless-url", base + "URL /zk\n  GET\n    Path\n      {\n        \"q\": 1\n      }\n    200 any\n"})
	vs = append(vs, variant{"two-paths-in-parameterless-url", base + "URL /zj/more\n  Path\n    {}\n  Path\n    {}\n  GET\n    200 any\n"})
	vs = append(vs, variant{"two-path-directives", base + "GET /zu/{q}/{r}\n  Path\n    {\n      \"q\": 1\n    }\n  Path\n    {\n      \"r\": 1\n    }\n  200 any\n"})
	// '.' and '..' are ordinary path segments: a declaration for /dotz/{id} says nothing about /dotz/./{id} or /x/../dotz/{id}
	{
		extra := base + "URL /dotz/{id}\n  Path\n    {\n      \"id\": 1\n    }\n  GET\n    200 any\nGET /dotz/./{id}\n  200 any\nGET /dotx/../dotz/{id}\n  200 any\nGET /dotz//{id}/more\n  200 any\n"
		de := run.Single([]byte(extra))
		oe := t.Exec(de)
		t.Count("dot_segment_documents")
		if oe.Outcome != run.Accepted {
			c.Docs = []run.Doc{de}
			t.Violation("valid-path-tree-rejected:dot-segments:"+outcomeSig(oe), fmt.Sprintf("%s\n%s", describe(oe), extra))
		} else if ge, err := jsonx.Parse(oe.JSON); err == nil {
			in := ge.Root.Get("interactions")
			for key, want := range map[string]bool{"http GET /dotz/{id}": true, "http GET /dotz/./{id}": false, "http GET /dotx/../dotz/{id}": false} {
				iv := in.Get(key)
				if iv == nil {
					t.Violation("path-variables-differ:dot-segments-missing", fmt.Sprintf("interaction %q is not in the catalog\n%s", key, extra))
					continue
				}
				if iv.Has("pathVariables") != want {
					c.Docs = []run.Doc{de}
					t.Violation("path-variables-differ:dot-segments", fmt.Sprintf("interaction %q: pathVariables present=%v, expected %v ('.' and '..' are ordinary segments)\n%s", key, iv.Has("pathVariables"), want, extra))
				}
			}
		}
	}
	// the same faults in projects that have Path directives and no interaction at all
	const noMethods = "JSIGHT 0.3\nTYPE @id\n  7\n"
	vs = append(vs, variant{"no-interactions:property-without-segment", noMethods + "URL /zn1/{q}\n  Path\n    {\n      \"q\": 1,\n      \"nosuchsegment\": 2\n    }\n"})
	vs = append(vs, variant{"no-interactions:path-in-parameterless-url", noMethods + "URL /zn2\n  Path\n    {\n      \"q\": 1\n    }\n"})
	vs = append(vs, variant{"no-interactions:declared-twice", noMethods + "URL /zn3/{q}\n  Path\n    {\n      \"q\": 1\n    }\nURL /zn3/{q}/more\n  Path\n    {\n      \"q\": @id\n    }\n"})
	vs = append(vs, variant{"no-interactions:declared-twice-by-one-macro", noMethods + "MACRO @zp\n(\n  Path\n    {\n      \"q\": 1\n    }\n)\nURL /zn6/{q}\n  PASTE @zp\nURL /zn6/{q}/more\n  PASTE @zp\n"})
	vs = append(vs, variant{"no-interactions:path-body-not-object", noMethods + "URL /zn4/{q}\n  Path\n    [1]\n"})
	vs = append(vs, variant{"no-interactions:nested-property", noMethods + "URL /zn5/{q}\n  Path\n    {\n      \"q\": {\"a\": 1}\n    }\n"})
	for _, v := range vs {
		dv := run.Single([]byte(v.text))
		ov := t.Exec(dv)
		t.Count("faulty_variants_checked")
		if ov.Outcome != run.Rejected {
			c.Docs = []run.Doc{dv}
			t.Violation("path-fault-not-rejected:"+v.kind+":"+ov.Outcome, fmt.Sprintf("%s: %s\n%s", v.kind, describe(ov), v.text))
		} else if run.RuntimeFaultText(ov.ErrText) {
			t.Violation("path-fault-runtime:"+v.kind, describe(ov))
		}
	}
}


// c13EvalShared: a Path declaration kept in one file that several hosts include (the usual way to share "{id}"):
// every host's interactions must get the parameter, exactly as if the text stood in place.
func c13EvalShared(t *fw.T, c *fw.Case) {
	r := xrand.Derive(t.Seed, c.Index, "C13", "shared")
	k := r.Range(2, 4)
	inMethod := r.Bool()
	val := []string{"12", "\"abc\"", "@pid"}[r.Intn(3)]
	nl := []string{"\n", "\n", "\r\n", "\r"}[r.Intn(4)]
	var shared string
	if inMethod {
		shared = "GET\n  Path\n  {\n    \"id\": " + val + " // the id\n  }\n  200 any\n"
	} else {
		shared = "Path\n{\n  \"id\": " + val + "\n}\n"
	}
	var root strings.Builder
	root.WriteString("JSIGHT 0.3\nTYPE @pid\n  7\n")
	var keys []string
	if c.Index%4 == 3 {
		c13EvalShortcuts(t, c, r)
		return
	}
	byMacro := c.Index%3 == 2 // the shared text in a macro that every host pastes, instead of a file that every host includes
	use := "INCLUDE shared.jst"
	if byMacro {
		use = "PASTE @shared"
	}
	for i := 0; i < k; i++ {
		root.WriteString(fmt.Sprintf("URL /s%d/{id}\n  %s\n", i, use))
		if !inMethod {
			root.WriteString("  GET\n    200 any\n")
		}
		keys = append(keys, fmt.Sprintf("http GET /s%d/{id}", i))
	}
	conv := func(x string) []byte { return []byte(strings.ReplaceAll(x, "\n", nl)) }
	pad := ""
	for _, l := range strings.Split(strings.TrimRight(shared, "\n"), "\n") {
		pad += "  " + l + "\n"
	}
	if byMacro {
		root.WriteString("MACRO @shared\n(\n" + pad + ")\n")
	}
	d := run.Doc{Files: map[string][]byte{"root.jst": conv(root.String()), "shared.jst": conv(pad)}, Root: "root.jst"}
	c.Docs = []run.Doc{d}
	o := t.Exec(d)
	t.Count("shared_path_projects")
	if o.Outcome != run.Accepted {
		t.Violation("valid-path-tree-rejected:shared-"+map[bool]string{false: "file", true: "macro"}[byMacro]+":"+outcomeSig(o), fmt.Sprintf("a Path kept in a file (or macro) that %d URL blocks include (paste) is not accepted: %s\n%s--- shared.jst\n%s", k, describe(o), root.String(), pad))
		return
	}
	doc, err := jsonx.Parse(o.JSON)
	if err != nil {
		return
	}
	for _, key := range keys {
		t.Count("path_variable_sets_checked")
		pv := doc.Root.Get("interactions").Get(key).Get("pathVariables")
		ch := pv.Get("schema").Get("content").Get("children").Arr0()
		if pv == nil || len(ch) != 1 || ch[0].Get("key").S() != "id" {
			t.Violation("path-variables-differ:shared-file", fmt.Sprintf("interaction %q does not get the parameter declared in the shared file\n%s--- shared.jst\n%s", key, root.String(), pad))
			return
		}
	}
	t.Distinct(fmt.Sprintf("shared k%d method%v macro%v", k, inMethod, byMacro))
}


// c13EvalShortcuts: several Path directives whose body is a reference to one user type (Path / @ids).
func c13EvalShortcuts(t *fw.T, c *fw.Case, r *xrand.Rand) {
	k := r.Range(2, 4)
	var sb strings.Builder
	sb.WriteString("JSIGHT 0.3\nTYPE @ids\n{\n  \"id\": 1,\n  \"rev\": \"a\" // the revision\n}\n")
	var keys []string
	for i := 0; i < k; i++ {
		fmt.Fprintf(&sb, "URL /sc%d/{id}/{rev}\n  Path\n    @ids\n  GET\n    200 any\n", i)
		keys = append(keys, fmt.Sprintf("http GET /sc%d/{id}/{rev}", i))
		if r.Bool() {
			fmt.Fprintf(&sb, "GET /sc%d/{id}/{rev}/more\n  200 any\n", i)
			keys = append(keys, fmt.Sprintf("http GET /sc%d/{id}/{rev}/more", i))
		}
	}
	text := sb.String()
	d := run.Single([]byte(text))
	c.Docs = []run.Doc{d}
	o := t.Exec(d)
	t.Count("shared_path_projects")
	if o.Outcome != run.Accepted {
		t.Violation("valid-path-tree-rejected:shared-type:"+outcomeSig(o), fmt.Sprintf("%s\n%s", describe(o), text))
		return
	}
	doc, err := jsonx.Parse(o.JSON)
	if err != nil {
		return
	}
	for _, key := range keys {
		t.Count("path_variable_sets_checked")
		ch := doc.Root.Get("interactions").Get(key).Get("pathVariables").Get("schema").Get("content").Get("children").Arr0()
		if len(ch) != 2 || ch[0].Get("key").S() != "id" || ch[1].Get("key").S() != "rev" {
			t.Violation("path-variables-differ:shared-type", fmt.Sprintf("interaction %q does not get the parameters id, rev declared through the shared type\n%s", key, text))
			return
		}
	}
	// the second Path names a type with a property that matches no segment: still a fault
	bad := text + "TYPE @idsBad\n{\n  \"id\": 1,\n  \"nosuch\": 2\n}\nURL /scbad/{id}\n  Path\n    @idsBad\n  GET\n    200 any\n"
	ob := t.Exec(run.Single([]byte(bad)))
	t.Count("faulty_variants_checked")
	if ob.Outcome != run.Rejected {
		t.Violation("path-fault-not-rejected:shared-type-property-without-segment:"+ob.Outcome, fmt.Sprintf("%s\n%s", describe(ob), bad))
	}
	t.Distinct(fmt.Sprintf("shortcuts k%d", k))
}
