package checks

import (
	"fmt"
	"strconv"

	"verifharness/internal/fw"
	"verifharness/internal/gen"
	"verifharness/internal/jsonx"
	"verifharness/internal/run"
	"verifharness/internal/xrand"
)

func init() {
	fw.Register(&fw.Check{
		ID:    "C04",
		Level: "exploration",
		Rule: "each case is an abstract API model drawn from the generator's fragment (info, servers, enums, user types in four notations, tags, URL blocks with HTTP methods or JSON-RPC methods, stand-alone path-bearing methods; " +
			"bodies as type reference / array of references / inline schema / regex / any / empty, on the directive line or as a Body child; schemas of scalars, objects, arrays, references, '@a | @b', notes and the rules optional, min, max, enum, one-level allOf), " +
			"declared in a shuffled order (so names are used before they are written), rendered in the canonical style and in further random styles; " +
			"the real catalog must equal the catalog projected from the model: collections (tags, servers, userTypes, userEnums, interactions) entry by entry in source order, every entry field by field, nothing missing and nothing extra. " +
			"Not predicted (wildcards, must be present): regex examples and examples of schemas whose closure contains allOf or a non-jsight type. " +
			"distinct_nontrivial = distinct model shapes (multiset of block kinds + body forms + schema features)",
		Assumptions: []string{
			"the projector (model -> expected catalog, ~400 lines) was calibrated against two hand-written documents and is written from the statement and the snapshot format",
			"automatic tag names are taken from the real naming function (their injectivity is C19's business)",
		},
		Families: []fw.Family{
			{Name: "models", N: constN(4000, 250000), Gen: genModelCase, Eval: c04Eval},
		},
		Floors: map[string]int64{"catalogs_compared": 2000},
	})
}

func genModelCase(r *xrand.Rand, idx int, tier string) *fw.Case {
	return &fw.Case{Meta: map[string]string{"mseed": strconv.FormatUint(r.Uint64(), 10)}, Docs: []run.Doc{{}}}
}

func modelOf(c *fw.Case, opt gen.Options) (*gen.Model, *xrand.Rand) {
	ms, _ := strconv.ParseUint(c.Meta["mseed"], 10, 64)
	r := xrand.New(ms)
	m := gen.Generate(r, opt)
	return m, r
}

var c04Opt = gen.Options{MaxBlocks: 14, AllowAllOf: true, Rich: true}

func modelShape(m *gen.Model) string {
	cnt := map[string]int{}
	var walk func(n *gen.SNode)
	walk = func(n *gen.SNode) {
		if n == nil {
			return
		}
		cnt["s:"+n.Kind]++
		if len(n.AllOf) > 0 {
			cnt["allOf"]++
		}
		if n.EnumRef != "" {
			cnt["enumrule"]++
		}
		for _, p := range n.Props {
			walk(p.Node)
		}
		for _, it := range n.Items {
			walk(it)
		}
	}
	body := func(b gen.Body) {
		k := "body:" + b.Form
		if b.AsChild {
			k += "/child"
		}
		cnt[k]++
		walk(b.Schema)
	}
	meth := func(me *gen.Method) {
		cnt["method"]++
		if me.Query != nil {
			cnt["query"]++
		}
		if me.Request != nil {
			body(me.Request.Body)
			if me.Request.Headers != nil {
				cnt["reqheaders"]++
			}
		}
		for _, r := range me.Responses {
			body(r.Body)
		}
		cnt[fmt.Sprintf("responses%d", len(me.Responses))]++
	}
	for _, b := range m.Blocks {
		cnt[b.Kind]++
		walk(b.Schema)
		for _, me := range b.Methods {
			meth(me)
		}
		if b.Method != nil {
			meth(b.Method)
		}
		for range b.RPC {
			cnt["rpcmethod"]++
		}
	}
	s := ""
	for _, k := range []string{"info", "server", "type", "enum", "tag", "url", "rpcurl", "method", "rpcmethod", "query", "reqheaders", "allOf", "enumrule",
		"body:ref", "body:refarray", "body:schema", "body:regex", "body:any", "body:empty", "body:ref/child", "body:schema/child", "s:or", "s:array", "responses2", "responses3"} {
		if cnt[k] > 0 {
			s += fmt.Sprintf("%s%d ", k, min(cnt[k], 3))
		}
	}
	return s
}

func c04Eval(t *fw.T, c *fw.Case) {
	m, r := modelOf(c, c04Opt)
	want := gen.Expected(m)
	styles := t.Pick(2, 4)
	c.Docs = nil
	for k := 0; k < styles; k++ {
		var st *gen.Style
		if k > 0 {
			st = gen.RandomStyle(r.Fork())
		}
		rd := gen.Render(m, st)
		d := run.Single([]byte(rd.Text))
		d.FixedSeed = true
		c.Docs = append(c.Docs, d)
		o := t.Exec(d)
		if o.Outcome != run.Accepted {
			t.Violation("valid-model-rejected:"+outcomeSig(o), fmt.Sprintf("a document rendered from a valid model (style %d) is not accepted: %s\n%s", k, describe(o), rd.Text))
			return
		}
		got, err := jsonx.Parse(o.JSON)
		if err != nil {
			t.Violation("json-unparseable", err.Error())
			return
		}
		t.Count("catalogs_compared")
		if d := gen.DiffCatalog(want, got.Root, "$"); d != "" {
			t.Violation("catalog-differs:"+diffClass(d), fmt.Sprintf("the catalog does not say what the document declares (style %d): %s\n%s", k, d, rd.Text))
			return
		}
	}
	t.Distinct(modelShape(m))
	t.Sample("model", map[string]interface{}{"document": c.Docs[0].Files["root.jst"], "shape": modelShape(m)})
}

func outcomeSig(o *run.Obs) string {
	switch o.Outcome {
	case run.Rejected:
		return run.MsgTemplate(o.Msg)
	case run.Panic, run.Budget:
		return o.Outcome + ":" + run.NormMsg(firstLine(o.PanicVal)) + "@" + o.PanicFrame
	}
	return o.Outcome
}

// diffClass keeps the structural part of a diff path: indices and names removed.
func diffClass(d string) string {
	// "$.interactions.http GET /a.responses[1].body: expected …" -> "$.interactions.*.responses[].body: expected/missing…"
	path := d
	rest := ""
	if i := indexOfColonSpace(d); i >= 0 {
		path, rest = d[:i], d[i+2:]
	}
	var out []byte
	seg := []byte(path)
	// collapse [n]
	for i := 0; i < len(seg); i++ {
		if seg[i] == '[' {
			out = append(out, '[', ']')
			for i < len(seg) && seg[i] != ']' {
				i++
			}
			continue
		}
		out = append(out, seg[i])
	}
	p := string(out)
	for _, coll := range []string{"$.interactions.", "$.userTypes.", "$.userEnums.", "$.tags.", "$.servers."} {
		if len(p) > len(coll) && p[:len(coll)] == coll {
			// drop the entry name up to the next ".known field"
			tail := p[len(coll):]
			cut := len(tail)
			for _, f := range []string{".schema", ".responses", ".request", ".query", ".pathVariables", ".tags", ".annotation", ".description", ".params", ".result", ".title", ".interactionGroups", ".baseUrl", ".value", ".id", ".path", ".httpMethod", ".method", ".protocol", ".name"} {
				if j := lastIndex(tail, f); j >= 0 && j < cut {
					cut = j
				}
			}
			p = coll + "*" + tail[cut:]
		}
	}
	kind := "differs"
	switch {
	case hasPrefix(rest, "missing"):
		kind = "missing"
	case hasPrefix(rest, "not declared"):
		kind = "extra"
	case hasPrefix(rest, "entry #") || hasPrefix(rest, "expected entries"):
		kind = "order-or-set"
	case hasPrefix(rest, "expected"):
		kind = "value"
	}
	return p + ":" + kind
}

func hasPrefix(s, p string) bool { return len(s) >= len(p) && s[:len(p)] == p }

func indexOfColonSpace(s string) int {
	for i := 0; i+1 < len(s); i++ {
		if s[i] == ':' && s[i+1] == ' ' {
			return i
		}
	}
	return -1
}

func lastIndex(s, sub string) int {
	// first occurrence is what we want for cutting the entry name
	for i := 0; i+len(sub) <= len(s); i++ {
		if s[i:i+len(sub)] == sub {
			return i
		}
	}
	return -1
}
