package checks

import (
	"bytes"
	"fmt"
	"strings"

	"verifharness/internal/corpus"
	"verifharness/internal/fw"
	"verifharness/internal/gen"
	"verifharness/internal/jsonx"
	"verifharness/internal/mut"
	"verifharness/internal/run"
	"verifharness/internal/xrand"
)

func init() {
	fw.Register(&fw.Check{
		ID:    "C05",
		Level: "exploration",
		Rule: "metamorphic: a generated model (valid, or carrying one injected fault so that rejected documents are covered too) is rendered canonically and in rewritten forms; verdict (accepted/rejected) and catalog bytes must be equal. " +
			"Rewritings come from the renderer, never from re-parsing: comment lines, block comments, blank and whitespace-only lines between complete directives (not directly after free text), per-line indentation and trailing blanks of directive lines, " +
			"LF/CRLF/CR, quoting of parameters that need no quotes, explicit parentheses around a directive's complete child run, body borders around a body that no child follows, parenthesised descriptions, // vs /* */ annotations. " +
			"families: 'styles' random combinations; 'single' exactly one rewriting at each eligible position of small documents (every decision index x flavours); 'corpus' positive fixtures re-written LF<->CRLF<->CR. " +
			"distinct_nontrivial = distinct (rewriting kinds applied | outcome) combinations; the evidence also reports the scanner (state, byte-class) pairs visited",
		Assumptions: []string{
			"messages and positions of rejected pairs are not compared (the statement speaks of verdict and catalog)",
			"multi-line free text is not re-indented; its line ends are rewritten together with the whole file (the description normaliser makes that immaterial)",
		},
		Families: []fw.Family{
			{Name: "styles", N: constN(2500, 80000), Gen: genModelCase, Eval: c05EvalStyles},
			{Name: "single", N: constN(250, 6000), Gen: genModelCase, Eval: c05EvalSingle},
			{Name: "corpus", N: func(string) int { return len(corpus.All()) }, Gen: c05GenCorpus, Eval: c05EvalCorpus},
			{Name: "comment-after-body", N: func(string) int { return len(c05Bodies) * len(c05Comments) }, Gen: func(r *xrand.Rand, idx int, tier string) *fw.Case {
				return &fw.Case{Ints: map[string]int{"i": idx}, Docs: []run.Doc{{}}}
			}, Eval: c05EvalCommentAfterBody},
		},
		Floors: map[string]int64{"pairs_compared": 15000, "accepted_bases": 1500},
	})
}

var c05Opt = gen.Options{MaxBlocks: 14, AllowAllOf: true, DeepAllOf: true}

// injectFault damages a valid model in one of a few ways (so that rejected documents are exercised too).
func injectFault(r *xrand.Rand, m *gen.Model) string {
	switch r.Intn(4) {
	case 0: // duplicate a named declaration
		for _, b := range m.Blocks {
			if b.Kind == "type" || b.Kind == "enum" || b.Kind == "server" || b.Kind == "tag" {
				cp := *b
				m.Blocks = append(m.Blocks, &cp)
				return "duplicate-" + b.Kind
			}
		}
	case 1: // an undefined type in a response
		for _, b := range m.Blocks {
			var me *gen.Method
			if b.Kind == "method" {
				me = b.Method
			} else if b.Kind == "url" && len(b.Methods) > 0 {
				me = b.Methods[0]
			}
			if me != nil {
				me.Responses = append(me.Responses, &gen.Response{Code: "418", Body: gen.Body{Form: "ref", Ref: "@undefinedType"}})
				return "undefined-type"
			}
		}
	case 2: // an undefined tag
		for _, b := range m.Blocks {
			if b.Kind == "method" {
				b.Method.Tags = []string{"@undefinedTag"}
				return "undefined-tag"
			}
			if b.Kind == "url" {
				b.Tags = []string{"@undefinedTag"}
				return "undefined-tag"
			}
		}
	}
	// the same path twice
	m.Blocks = append(m.Blocks, &gen.Block{Kind: "method", Method: &gen.Method{Verb: "GET", Path: "/dup/x", OwnPath: true}},
		&gen.Block{Kind: "method", Method: &gen.Method{Verb: "GET", Path: "/dup/x", OwnPath: true}})
	return "duplicate-method"
}

func c05Base(t *fw.T, c *fw.Case) (*gen.Model, *xrand.Rand, *run.Obs, string) {
	m, r := modelOf(c, c05Opt)
	fault := ""
	if r.Chance(1, 4) {
		fault = injectFault(r, m)
	}
	rd := gen.Render(m, nil)
	d := run.Single([]byte(rd.Text))
	d.FixedSeed = true
	c.Docs = []run.Doc{d}
	o := t.Exec(d)
	return m, r, o, fault
}

func c05Compare(t *fw.T, c *fw.Case, base *run.Obs, text string, what string) bool {
	d := run.Single([]byte(text))
	d.FixedSeed = true
	o := t.Exec(d)
	t.Count("pairs_compared")
	if o.Outcome != base.Outcome || (base.Outcome == run.Accepted && !bytes.Equal(o.JSON, base.JSON)) {
		c.Docs = append(c.Docs[:1], d)
		sig := "catalog-changes"
		if o.Outcome != base.Outcome {
			sig = "verdict-changes:" + base.Outcome + "->" + o.Outcome
			if o.Outcome == run.Rejected {
				sig += ":" + run.MsgTemplate(o.Msg)
			}
		}
		where := ""
		if o.Outcome == run.Accepted && base.Outcome == run.Accepted {
			a, e1 := jsonx.Parse(base.JSON)
			b, e2 := jsonx.Parse(o.JSON)
			if e1 == nil && e2 == nil {
				where = " first difference: " + jsonx.Diff(a.Root, b.Root, "$")
			}
		}
		t.Violation(sig, fmt.Sprintf("rewriting (%s) changes the result."+where+"\n  base:      %s\n  rewritten: %s\n--- base document\n%s\n--- rewritten document\n%s", what, describe(base), describe(o),
			c.Docs[0].Files["root.jst"], fw.Short([]byte(text), 3000)))
		return false
	}
	return true
}

func styleDesc(st *gen.Style) string {
	return fmt.Sprintf("indent=%q random-indent=%v nl=%q comments=1/%d trailing-ws=%v parens=1/%d quote=1/%d paren-desc=1/%d block-annot=1/%d borders=1/%d",
		st.IndentUnit, st.RandomIndent, st.Newline, st.Comments, st.TrailingWS, st.Parens, st.QuoteParams, st.ParenDesc, st.BlockAnnot, st.BodyBorders)
}

func c05EvalStyles(t *fw.T, c *fw.Case) {
	m, r, base, fault := c05Base(t, c)
	if base.Outcome == run.Panic || base.Outcome == run.Budget {
		return // C01's business
	}
	if base.Outcome == run.Accepted {
		t.Count("accepted_bases")
	} else {
		t.Count("rejected_bases")
	}
	k := t.Pick(8, 30)
	for i := 0; i < k; i++ {
		st := gen.RandomStyle(r.Fork())
		rd := gen.Render(m, st)
		if !c05Compare(t, c, base, rd.Text, styleDesc(st)) {
			return
		}
		t.Distinct(fmt.Sprintf("c%d p%d q%d d%d a%d b%d nl%q ri%v | %s %s", st.Comments, st.Parens, st.QuoteParams, st.ParenDesc, st.BlockAnnot, st.BodyBorders, st.Newline, st.RandomIndent, base.Outcome, fault))
	}
	t.Sample("styles", map[string]interface{}{"base": c.Docs[0].Files["root.jst"], "fault": fault, "outcome": base.Outcome})
}

func c05EvalSingle(t *fw.T, c *fw.Case) {
	ms, _ := xrand.New(0), 0
	_ = ms
	m, _ := modelOf(c, gen.Options{MaxBlocks: 6, AllowAllOf: true})
	rd := gen.Render(m, nil)
	d := run.Single([]byte(rd.Text))
	d.FixedSeed = true
	c.Docs = []run.Doc{d}
	base := t.Exec(d)
	if base.Outcome != run.Accepted && base.Outcome != run.Rejected {
		return
	}
	if base.Outcome == run.Accepted {
		t.Count("accepted_bases")
	}
	probe := gen.ScriptedStyle(func(int) bool { return false }, 0)
	gen.Render(m, probe)
	n := probe.Decisions()
	variants := t.Pick(3, 12)
	for i := 0; i < n; i++ {
		for v := 0; v < variants; v++ {
			idx := i
			st := gen.ScriptedStyle(func(k int) bool { return k == idx }, v)
			r := gen.Render(m, st)
			if r.Text == rd.Text {
				continue
			}
			t.Count("single_rewritings")
			if !c05Compare(t, c, base, r.Text, fmt.Sprintf("single rewriting: decision %d of %d, flavour %d", i, n, v)) {
				return
			}
		}
	}
	t.Distinct(fmt.Sprintf("single decisions=%d %s", n, base.Outcome))
}

func c05GenCorpus(r *xrand.Rand, idx int, tier string) *fw.Case {
	e := corpus.All()[idx]
	return oneDocCase(e.Content, e.Dir, e.Path)
}

func c05EvalCorpus(t *fw.T, c *fw.Case) {
	d := c.Docs[0]
	d.FixedSeed = true
	content := d.Files[d.Root]
	if bytes.Contains(content, []byte("INCLUDE")) {
		return // included files would keep their own line ends
	}
	lf := mut.Newlines(bytes.ReplaceAll(content, []byte("\r\n"), []byte("\n")), 0)
	if bytes.ContainsRune(lf, '\r') {
		return
	}
	dd := d
	dd.Files = map[string][]byte{d.Root: lf}
	base := t.Exec(dd)
	c.Docs = []run.Doc{dd}
	if base.Outcome != run.Accepted && base.Outcome != run.Rejected {
		return
	}
	for mode := 1; mode <= 2; mode++ {
		d2 := dd
		d2.Files = map[string][]byte{d.Root: mut.Newlines(lf, mode)}
		o := t.Exec(d2)
		t.Count("pairs_compared")
		t.Count("corpus_newline_pairs")
		if o.Outcome != base.Outcome || (base.Outcome == run.Accepted && !bytes.Equal(dropCR(o.JSON), dropCR(base.JSON))) {
			c.Docs = []run.Doc{dd, d2}
			sig := "corpus-newline:catalog-changes"
			if o.Outcome != base.Outcome {
				sig = "corpus-newline:verdict-changes"
				if o.Outcome == run.Rejected {
					sig += ":" + run.MsgTemplate(o.Msg)
				} else if base.Outcome == run.Rejected {
					sig += ":was:" + run.MsgTemplate(base.Msg)
				}
			}
			t.Violation(sig, fmt.Sprintf("fixture %s: switching line ends (mode %d) changes the result.\n  LF: %s\n  rewritten: %s", c.Note, mode, describe(base), describe(o)))
			return
		}
	}
	t.Distinct("corpus " + base.Outcome)
}

// dropCR maps the line ends inside JSON string values (multi-line notes and annotations are content) to LF.
func dropCR(b []byte) []byte {
	b = bytes.ReplaceAll(b, []byte(`\r\n`), []byte(`\n`))
	return bytes.ReplaceAll(b, []byte(`\r`), []byte(`\n`))
}

// a comment line directly after a body: the schema dependency measures a schema body including trailing comments,
// so these positions are read by it and not by this library's comment states.
var c05Bodies = [][2]string{
	{"schema", "JSIGHT 0.3\nTYPE @t\n  {\"a\": 1}\n%sGET /a\n  200 any\n"},
	{"schema-nested", "JSIGHT 0.3\nGET /a\n  Query\n    {\"q\": 1}\n%s  200 any\n"},
	{"enum", "JSIGHT 0.3\nENUM @e\n  [1, 2]\n%sGET /a\n  200 any\n"},
	{"regex", "JSIGHT 0.3\nTYPE @r regex\n  /ab/\n%sGET /a\n  200 any\n"},
	{"reference", "JSIGHT 0.3\nTYPE @t\n  1\nGET /a\n  200 @t\n%s  404 any\n"},
}

var c05Comments = []string{"#\n", "  #\n", "##\n", "######\n", "# x\n", "###\nx\n###\n", "#\r\n", "# # #\n", "###x###\n"}

func c05EvalCommentAfterBody(t *fw.T, c *fw.Case) {
	i := c.Ints["i"]
	body := c05Bodies[i%len(c05Bodies)]
	cm := c05Comments[(i/len(c05Bodies))%len(c05Comments)]
	base := strings.Replace(body[1], "%s", "", 1)
	with := strings.Replace(body[1], "%s", cm, 1)
	db, dw := run.Single([]byte(base)), run.Single([]byte(with))
	c.Docs = []run.Doc{db, dw}
	ob, ow := t.Exec(db), t.Exec(dw)
	t.Count("pairs_compared")
	t.Count("comment_after_body_pairs")
	if ob.Outcome != run.Accepted {
		t.Violation("template-rejected", describe(ob))
		return
	}
	if ow.Outcome != ob.Outcome || !bytes.Equal(ow.JSON, ob.JSON) {
		what := "catalog-changes"
		if ow.Outcome != ob.Outcome {
			what = "verdict-changes"
		}
		t.Violation(fmt.Sprintf("comment-after-%s-body:%q:%s", body[0], strings.TrimRight(cm, "\r\n"), what),
			fmt.Sprintf("a comment line %q directly after a %s body changes the result: %s\n--- with the comment\n%s", cm, body[0], describe(ow), with))
		return
	}
	t.Distinct("comment-after-body " + body[0] + " " + cm)
}
