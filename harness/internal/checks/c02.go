package checks

import (
	"strconv"
	"bytes"
	"fmt"
	"os"
	"path/filepath"
	"strings"

	"verifharness/internal/corpus"
	"verifharness/internal/fw"
	"verifharness/internal/mut"
	"verifharness/internal/run"
	"verifharness/internal/xrand"
)

func init() {
	fw.Register(&fw.Check{
		ID:    "C02",
		Level: "exploration",
		Rule: "every rejection produced by the workloads is checked: the located file belongs to the project, Index() <= len(file), Line() and Quote() are recomputed by an independent routine " +
			"(exact on files with one newline convention, range checks on mixed ones), the include trace is a real chain: innermost first, each path:line holds an INCLUDE of the next-inner file, " +
			"the outermost entry is the root, and an error in the root carries no trace; for injected faults with a known span the index must lie inside the faulty directive. " +
			"families: corpus x newline modes; mutants; token sequences; generated include projects with one injected scan-time or build-time fault in the 1st/2nd/last included file at depth up to the bound, " +
			"several files from one includer and one file included from several places. distinct_nontrivial = distinct (message template, include depth, newline convention)",
		Assumptions: []string{
			"files mixing LF, CRLF and CR are only range-checked: the statement does not define line numbers for them",
			"when one file is included from several places any INCLUDE line naming it is accepted for its trace entry",
		},
		Families: []fw.Family{
			{Name: "corpus", N: func(string) int { return len(corpus.All()) * 3 }, Gen: c01GenCorpus, Eval: c02Eval},
			{Name: "mutant", N: constN(40000, 1500000), Gen: c01GenMutant, Eval: c02Eval},
			{Name: "tokens_rand", N: constN(20000, 300000), Gen: c01GenTokensRand, Eval: c02Eval},
			{Name: "includes", N: constN(600, 20000), Gen: c01GenIncludes, Eval: c02Eval},
			{Name: "include_fault", N: constN(4000, 150000), Gen: c02GenIncludeFault, Eval: c02Eval},
			{Name: "pending_fault", N: constN(1500, 40000), Gen: c02GenPending, Eval: c02Eval},
		},
		Floors: map[string]int64{"rejections_checked": 5000, "traces_checked": 500},
	})
}

// newline convention of a file: "lf", "crlf", "cr", "none", "mixed"
func nlConvention(b []byte) string {
	lf, cr, crlf := 0, 0, 0
	for i := 0; i < len(b); i++ {
		switch b[i] {
		case '\n':
			if i > 0 && b[i-1] == '\r' {
				crlf++
			} else {
				lf++
			}
		case '\r':
			if !(i+1 < len(b) && b[i+1] == '\n') {
				cr++
			}
		}
	}
	switch {
	case lf == 0 && cr == 0 && crlf == 0:
		return "none"
	case cr == 0 && crlf == 0:
		return "lf"
	case lf == 0 && cr == 0:
		return "crlf"
	case lf == 0 && crlf == 0:
		return "cr"
	}
	return "mixed"
}

// refLineQuote recomputes line number and quote for an index, independently of the library.
func refLineQuote(b []byte, idx int, conv string) (line int, quote string) {
	term := byte('\n')
	if conv == "cr" {
		term = '\r'
	}
	if idx > len(b) {
		idx = len(b)
	}
	line = 1
	begin := 0
	for i := 0; i < idx; i++ {
		if b[i] == term {
			line++
			begin = i + 1
		}
	}
	end := idx
	for end < len(b) && b[end] != term {
		end++
	}
	if conv == "crlf" && end > begin && b[end-1] == '\r' {
		end-- // the CR of the CRLF is not part of the line
	}
	if end < begin {
		end = begin
	}
	seg := b[begin:end]
	if len(seg) > 200 {
		seg = seg[:197]
		return line, string(bytes.TrimLeft(seg, " \t\r\n")) + "..."
	}
	return line, string(bytes.TrimLeft(seg, " \t\r\n"))
}

// projectFile returns the content of a project file given the absolute name the library uses.
func projectFile(d run.Doc, o *run.Obs, abs string) ([]byte, bool) {
	if o.Dir != "" {
		if rel, err := filepath.Rel(o.Dir, abs); err == nil && !strings.HasPrefix(rel, "..") {
			if c, ok := d.Files[rel]; ok {
				return c, true
			}
		}
	}
	if d.BaseDir != "" && strings.HasPrefix(abs, d.BaseDir) {
		if c, err := os.ReadFile(abs); err == nil {
			return c, true
		}
	}
	return nil, false
}

// lineText returns the text of the 1-based line under the file's own convention.
func lineText(b []byte, line int) (string, bool) {
	conv := nlConvention(b)
	sep := "\n"
	switch conv {
	case "cr":
		sep = "\r"
	case "crlf":
		sep = "\r\n"
	case "mixed":
		return "", false
	}
	parts := strings.Split(string(b), sep)
	if line < 1 || line > len(parts) {
		return "", true
	}
	return parts[line-1], true
}

func c02Eval(t *fw.T, c *fw.Case) {
	d := c.Docs[0]
	o := t.Exec(d)
	t.Count(o.Outcome)
	if o.Outcome != run.Rejected {
		return
	}
	c02CheckLocation(t, c, d, o)
}

func c02CheckLocation(t *fw.T, c *fw.Case, d run.Doc, o *run.Obs) {
	t.Count("rejections_checked")
	input := fw.Short(d.Files[d.Root], 300)
	rootAbs := filepath.Join(o.Dir, d.Root)
	// (a) the file
	content, ok := projectFile(d, o, o.File)
	if !ok {
		t.Violation("file-not-in-project", fmt.Sprintf("diagnostic %q is located in %q which is not a file of the project; root %s", o.Msg, o.File, input))
		return
	}
	if !bytes.Equal(content, o.FileData) {
		t.Violation("file-content-mismatch", fmt.Sprintf("diagnostic %q: the located file %q does not hold the bytes the project has under that name", o.Msg, o.File))
		return
	}
	// (b) the index
	if int(o.Index) > len(content) {
		t.Violation("index-past-end:"+run.MsgTemplate(o.Msg), fmt.Sprintf("diagnostic %q has index %d in a file of %d bytes (%s); root %s", o.Msg, o.Index, len(content), o.File, input))
		return
	}
	// (c) line and quote
	conv := nlConvention(content)
	nlines := 1 + bytes.Count(content, []byte("\n")) + bytes.Count(content, []byte("\r"))
	if conv == "mixed" {
		t.Count("mixed_newlines_range_checked_only")
		if int(o.Line) < 1 || int(o.Line) > nlines {
			t.Violation("line-out-of-range", fmt.Sprintf("diagnostic %q: line %d outside 1..%d", o.Msg, o.Line, nlines))
		}
		if o.Quote != "" && !bytes.Contains(content, []byte(strings.TrimSuffix(o.Quote, "..."))) {
			t.Violation("quote-not-in-file", fmt.Sprintf("diagnostic %q: quote %q does not occur in the file", o.Msg, o.Quote))
		}
	} else {
		wl, wq := refLineQuote(content, int(o.Index), conv)
		if int(o.Line) != wl {
			t.Violation("line-mismatch:"+conv, fmt.Sprintf("diagnostic %q at index %d: Line()=%d but the index is on line %d (%s file); file %s",
				o.Msg, o.Index, o.Line, wl, conv, fw.Short(content, 300)))
		}
		// a line of blanks only is quoted as it is; otherwise leading blanks are dropped: compare modulo leading blanks
		if strings.TrimLeft(o.Quote, " \t\r\n") != strings.TrimLeft(wq, " \t\r\n") {
			t.Violation("quote-mismatch:"+conv, fmt.Sprintf("diagnostic %q at index %d: Quote()=%q but the line holding the index is %q (%s file); file %s",
				o.Msg, o.Index, o.Quote, wq, conv, fw.Short(content, 300)))
		}
		t.Count("line_quote_exact_checked")
	}
	// (d) known span of an injected fault
	if lo, ok := c.Ints["fault_lo"]; ok && c.Meta["fault_file"] != "" {
		hi := c.Ints["fault_hi"]
		wantFile := filepath.Join(o.Dir, c.Meta["fault_file"])
		if o.File != wantFile || int(o.Index) < lo || int(o.Index) > hi {
			t.Violation("outside-faulty-directive:"+c.Meta["fault_kind"], fmt.Sprintf("injected fault %s lies in %s bytes %d..%d but the diagnostic %q points to %s index %d",
				c.Meta["fault_kind"], c.Meta["fault_file"], lo, hi, o.Msg, o.FileRel, o.Index))
		}
		t.Count("span_checked")
	}
	// (e) the include trace
	depth := len(o.Trace)
	// an error in the root file normally has no trace; if it has one (the root including itself) the chain check below decides
	if o.File != rootAbs && depth == 0 {
		t.Violation("trace-missing", fmt.Sprintf("diagnostic %q is in the included file %s but carries no include trace; root %s", o.Msg, o.File, input))
	}
	if depth > 0 {
		t.Count("traces_checked")
		inner := o.File
		chainOK := true
		for i, tr := range o.Trace {
			inc, ok := projectFile(d, o, tr.Path)
			if !ok {
				t.Violation("trace-file-not-in-project", fmt.Sprintf("trace entry %d names %q which is not a file of the project", i, tr.Path))
				chainOK = false
				break
			}
			txt, exact := lineText(inc, int(tr.Line))
			if exact {
				if !includeLineNames(txt, filepath.Dir(tr.Path), inner) {
					cls := "no-include-on-that-line"
					if strings.Contains(txt, "INCLUDE") {
						cls = "line-includes-another-file"
						// does that file include the inner file at all (on some other line)?
						somewhere := false
						for _, l := range strings.FieldsFunc(string(inc), func(r rune) bool { return r == '\n' || r == '\r' }) {
							if includeLineNames(l, filepath.Dir(tr.Path), inner) {
								somewhere = true
							}
						}
						if !somewhere {
							cls = "file-does-not-include-it"
						}
					}
					t.Violation("trace-line-wrong:"+cls, fmt.Sprintf("diagnostic %q in %s: trace entry %d says %s:%d includes %s, but that line reads %q; whole trace %v",
						o.Msg, o.File, i, tr.Path, tr.Line, inner, txt, o.Trace))
					chainOK = false
					break
				}
			} else {
				t.Count("trace_line_in_mixed_file_not_checked")
			}
			inner = tr.Path
		}
		if chainOK && inner != rootAbs {
			t.Violation("trace-does-not-reach-root", fmt.Sprintf("diagnostic %q: outermost trace entry is %s, the root is %s; trace %v", o.Msg, inner, rootAbs, o.Trace))
		}
		// the rendered text: message, fault line, then the entries
		want := o.Msg + fmt.Sprintf("\n%s:%d", o.File, o.Line)
		for _, tr := range o.Trace {
			want += fmt.Sprintf("\n%s:%d", tr.Path, tr.Line)
		}
		if o.ErrText != want {
			t.Violation("trace-text", fmt.Sprintf("Error() = %q, expected %q", o.ErrText, want))
		}
	}
	// (f) path:line entries that the message itself carries (an error passed on by a PASTE keeps the chain of the macro's
	// file in its text): each must name a file of the project and a line that exists in it
	for i, l := range strings.Split(o.Msg, "\n") {
		if i == 0 {
			continue
		}
		k := strings.LastIndexByte(l, ':')
		if k <= 0 {
			continue
		}
		ln, err := strconv.Atoi(l[k+1:])
		if err != nil {
			continue
		}
		t.Count("embedded_trace_entries_checked")
		fc, ok := projectFile(d, o, l[:k])
		if !ok {
			t.Violation("embedded-trace-file-not-in-project", fmt.Sprintf("the message %q names %q which is not a file of the project", o.Msg, l[:k]))
			break
		}
		if n := 1 + bytes.Count(fc, []byte("\n")) + bytes.Count(fc, []byte("\r")); ln < 1 || ln > n {
			t.Violation("embedded-trace-line-out-of-range", fmt.Sprintf("the message %q names line %d of %q which has %d lines", o.Msg, ln, l[:k], n))
			break
		}
	}
	t.Distinct(fmt.Sprintf("%s depth=%d %s", run.MsgTemplate(o.Msg), depth, conv))
	t.Sample("rejected/"+c.Family, map[string]interface{}{"msg": o.Msg, "file": o.FileRel, "index": o.Index, "line": o.Line, "quote": o.Quote, "trace": o.Trace})
}

// includeLineNames reports whether the line holds an INCLUDE whose file name resolves to target.
func includeLineNames(line, dir, target string) bool {
	rest := line
	for {
		i := strings.Index(rest, "INCLUDE")
		if i < 0 {
			return false
		}
		rest = rest[i+len("INCLUDE"):]
		f := strings.Fields(rest)
		if len(f) == 0 {
			continue
		}
		name := f[0]
		if k := strings.IndexByte(name, '#'); k > 0 && !strings.HasPrefix(name, "\"") {
			name = name[:k] // a comment glued to the bare file name
		}
		if filepath.Join(dir, name) == target {
			return true
		}
		if un := strings.Trim(name, "\""); filepath.Join(dir, un) == target {
			return true
		}
	}
}

// ---- include projects with one injected fault ----

type incFile struct {
	name  string
	lines []string
}

func c02GenIncludeFault(r *xrand.Rand, idx int, tier string) *fw.Case {
	maxDepth := 4
	if tier == "thorough" {
		maxDepth = 8
	}
	depth := r.Range(1, maxDepth)
	uniq := idx * 1000
	files := map[string]*incFile{}
	order := []string{}
	newFile := func(name string) *incFile {
		f := &incFile{name: name}
		files[name] = f
		order = append(order, name)
		return f
	}
	root := newFile("root.jst")
	root.lines = append(root.lines, "JSIGHT 0.3")
	dirs := []string{"", "a/", "a/b/"}
	// a chain of includes root -> c1 -> c2 ... ; each level also includes 0-2 side files (several from one includer)
	chain := []*incFile{root}
	for lvl := 1; lvl <= depth; lvl++ {
		parent := chain[lvl-1]
		pdir := filepath.Dir(parent.name)
		if pdir == "." {
			pdir = ""
		} else {
			pdir += "/"
		}
		// side files before
		nb := r.Intn(3)
		for k := 0; k < nb; k++ {
			uniq++
			sn := fmt.Sprintf("%sside%d.jst", pdir, uniq)
			sf := newFile(sn)
			sf.lines = append(sf.lines, strings.Split(strings.TrimRight(fragSafe(r, &uniq), "\n"), "\n")...)
			parent.lines = append(parent.lines, padLines(r)...)
			parent.lines = append(parent.lines, "INCLUDE "+filepath.Base(sn))
		}
		uniq++
		sub := dirs[r.Intn(len(dirs))]
		cn := fmt.Sprintf("%s%sc%d_%d.jst", pdir, sub, lvl, uniq)
		cf := newFile(cn)
		parent.lines = append(parent.lines, padLines(r)...)
		rel, _ := filepath.Rel(filepath.Dir(parent.name), cn)
		parent.lines = append(parent.lines, "INCLUDE "+rel)
		cf.lines = append(cf.lines, strings.Split(strings.TrimRight(fragSafe(r, &uniq), "\n"), "\n")...)
		// side files after
		na := r.Intn(2)
		for k := 0; k < na; k++ {
			uniq++
			sn := fmt.Sprintf("%safter%d.jst", pdir, uniq)
			sf := newFile(sn)
			sf.lines = append(sf.lines, strings.Split(strings.TrimRight(fragSafe(r, &uniq), "\n"), "\n")...)
			parent.lines = append(parent.lines, "INCLUDE "+filepath.Base(sn))
		}
		chain = append(chain, cf)
	}
	// a shared file included from several places (harmless content)
	if r.Chance(1, 2) {
		sh := newFile("shared.jst")
		sh.lines = []string{"# shared", "  200 any"}
		for k := 0; k < 2; k++ {
			uniq++
			root.lines = append(root.lines, fmt.Sprintf("GET /sh%d", uniq), "INCLUDE shared.jst")
		}
	}
	// choose the faulty file: the deepest, a middle one, or a side file
	var target *incFile
	switch r.Intn(4) {
	case 0:
		target = chain[len(chain)-1]
	case 1:
		target = chain[r.Range(1, len(chain)-1)]
	case 2:
		target = files[order[r.Intn(len(order))]]
	default:
		target = chain[len(chain)-1]
	}
	if target == root && len(chain) > 1 && r.Chance(3, 4) {
		target = chain[1]
	}
	kind := []string{"bad-char", "dup-type", "undefined-type", "undefined-tag", "unknown-directive-param", "dup-server", "bad-schema", "chained-type-fault", "chained-type-fault", "unclosed-paren", "path-param-object-type", "path-param-object-type", "path-body-regex-type", "path-body-regex-type", "paren-opened-by-included-file", "paren-opened-by-included-file"}[r.Intn(16)]
	var faultLines, innocent []string
	faultLine := 0 // index within faultLines of the directive line the diagnostic must point into
	switch kind {
	case "bad-char":
		faultLines = []string{"!bad"}
	case "dup-type":
		root.lines = append([]string{root.lines[0], "TYPE @dup", "{}"}, root.lines[1:]...)
		faultLines = []string{"TYPE @dup", "{}"}
	case "undefined-type":
		uniq++
		faultLines = []string{fmt.Sprintf("GET /ut%d", uniq), "  200 @undefinedType"}
		faultLine = 1
	case "undefined-tag":
		uniq++
		faultLines = []string{fmt.Sprintf("GET /tg%d", uniq), "  Tags @nosuchtag", "  200 any"}
		faultLine = 1
	case "unknown-directive-param":
		faultLines = []string{"SERVER notAName"}
	case "dup-server":
		root.lines = append([]string{root.lines[0], "SERVER @dupsrv", "  BaseUrl \"https://a/\""}, root.lines[1:]...)
		faultLines = []string{"SERVER @dupsrv", "  BaseUrl \"https://b/\""}
	case "bad-schema":
		uniq++
		faultLines = []string{fmt.Sprintf("TYPE @bs%d", uniq), "{\"a\": }"}
		faultLine = 1
	case "unclosed-paren":
		// the file ends while a parenthesis it opened is still open
		uniq++
		faultLines = []string{fmt.Sprintf("URL /up%d", uniq), "(", "  GET", "    200 any"}
	case "path-param-object-type":
		// a path parameter typed by an object type (found when the path variables are built, long after scanning);
		// an innocent Path directive stands at the very end of the root file
		uniq++
		root.lines = append([]string{root.lines[0], fmt.Sprintf("TYPE @objT%d", uniq), "{\"a\": 1}"}, root.lines[1:]...)
		faultLines = []string{fmt.Sprintf("GET /pp%d/{id}", uniq), "  Path", "  {", fmt.Sprintf("    \"id\": @objT%d", uniq), "  }", "  200 any"}
		innocent = []string{fmt.Sprintf("GET /zz%d/{k}", uniq), "  Path", "  {", "    \"k\": 1", "  }", "  200 any"}
	case "paren-opened-by-included-file":
		// the directive stands at the end of one file, its parenthesis is the first thing of the file included next, and
		// that file never closes it: the file at fault is the included one
		uniq++
		tdir := filepath.Dir(target.name)
		if tdir == "." {
			tdir = ""
		} else {
			tdir += "/"
		}
		nf := newFile(fmt.Sprintf("%szzopen%d.jst", tdir, uniq))
		target.lines = append(target.lines, fmt.Sprintf("URL /upi%d", uniq), fmt.Sprintf("INCLUDE zzopen%d.jst", uniq))
		target = nf
		faultLines = []string{"(", "  GET", "    200 any"}
	case "path-body-regex-type":
		// the body of a Path directive is a reference (directly or through an alias type) to a regex type: the regex
		// type itself is valid and stands at the top of the root file; the directive at fault is the Path directive
		uniq++
		heads := []string{fmt.Sprintf("TYPE @rxT%d regex", uniq), "/[a-z]{3}/"}
		ref := fmt.Sprintf("@rxT%d", uniq)
		if r.Bool() {
			heads = append(heads, fmt.Sprintf("TYPE @rxA%d", uniq), ref)
			ref = fmt.Sprintf("@rxA%d", uniq)
		}
		if r.Bool() {
			// the valid regex type is also used validly elsewhere
			heads = append(heads, fmt.Sprintf("GET /rxu%d", uniq), fmt.Sprintf("  200 @rxT%d", uniq))
		}
		root.lines = append(append([]string{root.lines[0]}, heads...), root.lines[1:]...)
		faultLines = []string{fmt.Sprintf("GET /pr%d/{id}", uniq), "  Path", "    " + ref, "  200 any"}
	case "chained-type-fault":
		// a chain of user types @ch_0 -> @ch_1 -> ... whose LAST link has a fault that only loading/checking finds; the
		// earlier links stand at the top of the root file (declared first), the faulty one at the end of the target file
		uniq++
		n := r.Range(2, 4)
		var heads []string
		for i := 0; i < n-1; i++ {
			heads = append(heads, fmt.Sprintf("TYPE @ch%d_%d", uniq, i), "{", fmt.Sprintf("  \"next\": @ch%d_%d", uniq, i+1), "}")
		}
		if r.Bool() {
			heads = append(heads, fmt.Sprintf("GET /ch%d", uniq), fmt.Sprintf("  200 @ch%d_0", uniq))
		}
		root.lines = append(append([]string{root.lines[0]}, heads...), root.lines[1:]...)
		bad := []string{"\"x\": 1 // {enum: @nosuchenum}", "\"x\": 1 // {min: \"q\"}", "\"x\": 1 // {precision: 2}", "\"x\": \"s\" // {type: \"integer\"}"}[r.Intn(4)]
		faultLines = []string{fmt.Sprintf("TYPE @ch%d_%d", uniq, n-1), "{", "  \"padding\": 1,", "  " + bad, "}"}
	}
	// the fault goes to the end of the target file (after its includes: top level again)
	at := len(target.lines)
	if target == root {
		// keep it after everything else
	}
	target.lines = append(target.lines, faultLines...)
	if len(innocent) > 0 {
		if target == root {
			root.lines = append(root.lines, innocent...)
		} else {
			root.lines = append(root.lines, innocent...)
		}
	}
	nlMode := r.Intn(3)
	sep := []string{"\n", "\r\n", "\r"}[nlMode]
	out := map[string][]byte{}
	lo, hi := 0, 0
	for name, f := range files {
		s := strings.Join(f.lines, sep) + sep
		out[name] = []byte(s)
		if f == target {
			off := 0
			for i := 0; i < at+faultLine; i++ {
				off += len(f.lines[i]) + len(sep)
			}
			lo = off
			hi = off + len(f.lines[at+faultLine])
			if kind == "dup-type" || kind == "dup-server" || kind == "bad-char" || kind == "unknown-directive-param" || kind == "chained-type-fault" || kind == "unclosed-paren" || kind == "path-param-object-type" || kind == "path-body-regex-type" || kind == "paren-opened-by-included-file" {
				// whole directive (keyword line .. end of its last line)
				hi = off
				for i := at; i < at+len(faultLines); i++ {
					hi += len(f.lines[i]) + len(sep)
				}
			}
		}
	}
	cs := &fw.Case{Docs: []run.Doc{{Files: out, Root: "root.jst"}}, Note: "include project with fault " + kind + " in " + target.name}
	cs.Meta = map[string]string{"fault_kind": kind, "fault_file": target.name}
	cs.Ints = map[string]int{"fault_lo": lo, "fault_hi": hi}
	return cs
}

func padLines(r *xrand.Rand) []string {
	var out []string
	for k := r.Intn(3); k > 0; k-- {
		out = append(out, []string{"", "# pad", "   "}[r.Intn(3)])
	}
	return out
}

var _ = mut.Newlines

// c02GenPending: a directive that turns out to be misplaced only when the next keyword arrives, and that keyword
// is met one, two or three include levels further down (files that start with an INCLUDE).
func c02GenPending(r *xrand.Rand, idx int, tier string) *fw.Case {
	uniq := idx * 100
	files := map[string][]string{}
	depth := r.Range(0, 3) // how deep the file with the pending directive lies
	cur := "root.jst"
	files[cur] = []string{"JSIGHT 0.3"}
	for d := 1; d <= depth; d++ {
		next := fmt.Sprintf("lvl%d.jst", d)
		if r.Bool() {
			files[cur] = append(files[cur], strings.Split(strings.TrimRight(fragSafe(r, &uniq), "\n"), "\n")...)
		}
		files[cur] = append(files[cur], padLines(r)...)
		files[cur] = append(files[cur], "INCLUDE "+next)
		files[next] = nil
		cur = next
	}
	target := cur
	if r.Bool() {
		files[target] = append(files[target], strings.Split(strings.TrimRight(fragSafe(r, &uniq), "\n"), "\n")...)
	}
	faulty := []string{"Body any", "Title \"x\"", "Headers\n{\"h\": \"v\"}", "BaseUrl \"https://a/\"", "Params\n{}", "404 any"}[r.Intn(6)]
	// a TYPE in front: whatever stood before, the misplaced directive finds no context that admits it
	files[target] = append(files[target], "TYPE @sep"+fmt.Sprint(uniq)+" any")
	at := len(files[target])
	fl := strings.Split(faulty, "\n")
	files[target] = append(files[target], fl...)
	// the next keyword comes only after down further include levels
	down := r.Range(1, 3)
	prev := target
	for k := 1; k <= down; k++ {
		nm := fmt.Sprintf("p%d.jst", k)
		files[prev] = append(files[prev], padLines(r)...)
		files[prev] = append(files[prev], "INCLUDE "+nm)
		files[nm] = nil
		if r.Chance(1, 3) {
			files[nm] = append(files[nm], "# leading comment", "")
		}
		prev = nm
	}
	uniq++
	files[prev] = append(files[prev], fmt.Sprintf("TYPE @deep%d any", uniq))
	sep := []string{"\n", "\r\n", "\r"}[r.Intn(3)]
	out := map[string][]byte{}
	lo, hi := 0, 0
	for name, lines := range files {
		out[name] = []byte(strings.Join(lines, sep) + sep)
		if name == target {
			for i := 0; i < at; i++ {
				lo += len(lines[i]) + len(sep)
			}
			hi = lo
			for i := at; i < at+len(fl); i++ {
				hi += len(lines[i]) + len(sep)
			}
		}
	}
	cs := &fw.Case{Docs: []run.Doc{{Files: out, Root: "root.jst"}}, Note: "pending misplaced directive in " + target + ", next keyword " + fmt.Sprint(down) + " include level(s) down"}
	cs.Meta = map[string]string{"fault_kind": "pending-context", "fault_file": target}
	cs.Ints = map[string]int{"fault_lo": lo, "fault_hi": hi}
	return cs
}
