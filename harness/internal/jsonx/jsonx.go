// Package jsonx is an order-preserving, duplicate-key-detecting JSON decoder.
package jsonx

import (
	"bytes"
	"encoding/json"
	"fmt"
	"io"
	"strings"
	"unicode/utf8"
)

type Node struct {
	Kind byte // 'o' object, 'a' array, 's' string, 'n' number, 'b' bool, '0' null
	Keys []string
	Vals []*Node
	Arr  []*Node
	Str  string
	Num  string
	Bool bool
}

type Doc struct {
	Root *Node
	// Dups holds the paths of repeated keys.
	Dups []string
}

// Parse decodes data. It fails on invalid UTF-8, syntax errors and trailing data; repeated keys are recorded.
func Parse(data []byte) (*Doc, error) {
	if !utf8.Valid(data) {
		return nil, fmt.Errorf("invalid UTF-8")
	}
	dec := json.NewDecoder(bytes.NewReader(data))
	dec.UseNumber()
	d := &Doc{}
	n, err := parseValue(dec, d, "$")
	if err != nil {
		return nil, err
	}
	if _, err := dec.Token(); err != io.EOF {
		return nil, fmt.Errorf("trailing data after the JSON value")
	}
	d.Root = n
	return d, nil
}

func parseValue(dec *json.Decoder, d *Doc, path string) (*Node, error) {
	tok, err := dec.Token()
	if err != nil {
		return nil, err
	}
	switch v := tok.(type) {
	case json.Delim:
		switch v {
		case '{':
			n := &Node{Kind: 'o'}
			seen := map[string]bool{}
			for dec.More() {
				kt, err := dec.Token()
				if err != nil {
					return nil, err
				}
				k, ok := kt.(string)
				if !ok {
					return nil, fmt.Errorf("non-string key at %s", path)
				}
				if seen[k] {
					d.Dups = append(d.Dups, path+"."+k)
				}
				seen[k] = true
				val, err := parseValue(dec, d, path+"."+k)
				if err != nil {
					return nil, err
				}
				n.Keys = append(n.Keys, k)
				n.Vals = append(n.Vals, val)
			}
			if _, err := dec.Token(); err != nil {
				return nil, err
			}
			return n, nil
		case '[':
			n := &Node{Kind: 'a'}
			i := 0
			for dec.More() {
				val, err := parseValue(dec, d, fmt.Sprintf("%s[%d]", path, i))
				if err != nil {
					return nil, err
				}
				n.Arr = append(n.Arr, val)
				i++
			}
			if _, err := dec.Token(); err != nil {
				return nil, err
			}
			return n, nil
		}
		return nil, fmt.Errorf("unexpected delimiter %v", v)
	case string:
		return &Node{Kind: 's', Str: v}, nil
	case json.Number:
		return &Node{Kind: 'n', Num: v.String()}, nil
	case bool:
		return &Node{Kind: 'b', Bool: v}, nil
	case nil:
		return &Node{Kind: '0'}, nil
	}
	return nil, fmt.Errorf("unexpected token %v", tok)
}

// Get returns the value under key k of an object (the last one if repeated), or nil.
func (n *Node) Get(k string) *Node {
	if n == nil || n.Kind != 'o' {
		return nil
	}
	var out *Node
	for i, kk := range n.Keys {
		if kk == k {
			out = n.Vals[i]
		}
	}
	return out
}

func (n *Node) Has(k string) bool { return n.Get(k) != nil }

// S returns the string value ("" when n is not a string).
func (n *Node) S() string {
	if n == nil || n.Kind != 's' {
		return ""
	}
	return n.Str
}

func (n *Node) IsNull() bool { return n == nil || n.Kind == '0' }

// Strings returns the string items of an array.
func (n *Node) Strings() []string {
	if n == nil || n.Kind != 'a' {
		return nil
	}
	var out []string
	for _, x := range n.Arr {
		out = append(out, x.S())
	}
	return out
}

// Equal is deep, order-sensitive equality.
func Equal(a, b *Node) bool {
	if a == nil || b == nil {
		return a == b
	}
	if a.Kind != b.Kind {
		return false
	}
	switch a.Kind {
	case 'o':
		if len(a.Keys) != len(b.Keys) {
			return false
		}
		for i := range a.Keys {
			if a.Keys[i] != b.Keys[i] || !Equal(a.Vals[i], b.Vals[i]) {
				return false
			}
		}
		return true
	case 'a':
		if len(a.Arr) != len(b.Arr) {
			return false
		}
		for i := range a.Arr {
			if !Equal(a.Arr[i], b.Arr[i]) {
				return false
			}
		}
		return true
	case 's':
		return a.Str == b.Str
	case 'n':
		return a.Num == b.Num
	case 'b':
		return a.Bool == b.Bool
	}
	return true
}

// Diff returns the path of the first difference ("" if equal).
func Diff(a, b *Node, path string) string {
	if a == nil || b == nil {
		if a == b {
			return ""
		}
		return path + ": one side missing"
	}
	if a.Kind != b.Kind {
		return fmt.Sprintf("%s: kind %c vs %c", path, a.Kind, b.Kind)
	}
	switch a.Kind {
	case 'o':
		for i := 0; i < len(a.Keys) && i < len(b.Keys); i++ {
			if a.Keys[i] != b.Keys[i] {
				return fmt.Sprintf("%s: key #%d %q vs %q", path, i, a.Keys[i], b.Keys[i])
			}
			if d := Diff(a.Vals[i], b.Vals[i], path+"."+a.Keys[i]); d != "" {
				return d
			}
		}
		if len(a.Keys) != len(b.Keys) {
			return fmt.Sprintf("%s: %d vs %d keys (%s | %s)", path, len(a.Keys), len(b.Keys), strings.Join(a.Keys, ","), strings.Join(b.Keys, ","))
		}
	case 'a':
		for i := 0; i < len(a.Arr) && i < len(b.Arr); i++ {
			if d := Diff(a.Arr[i], b.Arr[i], fmt.Sprintf("%s[%d]", path, i)); d != "" {
				return d
			}
		}
		if len(a.Arr) != len(b.Arr) {
			return fmt.Sprintf("%s: %d vs %d items", path, len(a.Arr), len(b.Arr))
		}
	case 's':
		if a.Str != b.Str {
			return fmt.Sprintf("%s: %q vs %q", path, a.Str, b.Str)
		}
	case 'n':
		if a.Num != b.Num {
			return fmt.Sprintf("%s: %s vs %s", path, a.Num, b.Num)
		}
	case 'b':
		if a.Bool != b.Bool {
			return fmt.Sprintf("%s: %v vs %v", path, a.Bool, b.Bool)
		}
	}
	return ""
}

// Walk visits every node with its path.
func Walk(n *Node, path string, f func(path string, n *Node)) {
	if n == nil {
		return
	}
	f(path, n)
	switch n.Kind {
	case 'o':
		for i, k := range n.Keys {
			Walk(n.Vals[i], path+"."+k, f)
		}
	case 'a':
		for i, x := range n.Arr {
			Walk(x, fmt.Sprintf("%s[%d]", path, i), f)
		}
	}
}

// Render re-serialises a node compactly (keys in stored order).
func Render(n *Node) string {
	var sb strings.Builder
	render(&sb, n)
	return sb.String()
}

func render(sb *strings.Builder, n *Node) {
	if n == nil {
		sb.WriteString("null")
		return
	}
	switch n.Kind {
	case 'o':
		sb.WriteByte('{')
		for i, k := range n.Keys {
			if i > 0 {
				sb.WriteByte(',')
			}
			b, _ := json.Marshal(k)
			sb.Write(b)
			sb.WriteByte(':')
			render(sb, n.Vals[i])
		}
		sb.WriteByte('}')
	case 'a':
		sb.WriteByte('[')
		for i, x := range n.Arr {
			if i > 0 {
				sb.WriteByte(',')
			}
			render(sb, x)
		}
		sb.WriteByte(']')
	case 's':
		b, _ := json.Marshal(n.Str)
		sb.Write(b)
	case 'n':
		sb.WriteString(n.Num)
	case 'b':
		if n.Bool {
			sb.WriteString("true")
		} else {
			sb.WriteString("false")
		}
	default:
		sb.WriteString("null")
	}
}

// Arr0 returns the items of an array node (nil-safe).
func (n *Node) Arr0() []*Node {
	if n == nil || n.Kind != 'a' {
		return nil
	}
	return n.Arr
}
