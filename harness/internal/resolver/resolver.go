// Package resolver is the reference context resolver: the walk of property C06 as stated,
// parameterised by the repository's public admissibility table.
package resolver

import (
	"fmt"
	"strings"

	"github.com/jsightapi/jsight-api-go-library/directive"
)

const (
	EvDirective = iota
	EvOpen
	EvClose
)

type Event struct {
	Type    int
	Kind    directive.Enumeration
	HasPath bool // an HTTP method that carries its own path
	Off     int  // keyword offset (identity)
}

type Item struct {
	Kind     directive.Enumeration
	HasPath  bool
	Off      int
	Explicit bool
	Parent   *Item
	Children []*Item
}

// Rejection classes.
const (
	OK               = ""
	IncorrectContext = "incorrect-context"
	NoOpenContext    = "no-open-context"
	UnclosedContext  = "unclosed-context"
	OrphanOpen       = "open-without-directive"
)

// GoldenRoot and GoldenAdmits expose the frozen table (C06 compares the library's live table with it cell by cell).
func GoldenRoot(kind string) bool           { return goldenRoot[kind] }
func GoldenAdmits(parent, child string) bool { return goldenChildren[parent][child] }

// Resolve places the directives of the event sequence. It returns the top-level list and the rejection class.
func Resolve(events []Event) ([]*Item, string) {
	var roots []*Item
	var cur *Item  // current context (nil = top level)
	var last *Item // the directive an opening parenthesis refers to
	placed := false
	place := func(d *Item) string {
		c := cur
		for {
			if c == nil {
				if goldenRoot[d.Kind.String()] {
					roots = append(roots, d)
					cur = d
					return OK
				}
				return IncorrectContext
			}
			if goldenChildren[c.Kind.String()][d.Kind.String()] {
				if d.HasPath && c.Kind == directive.URL {
					if c.Explicit {
						return IncorrectContext
					}
					// a URL block does not admit a method that carries its own path: the walk goes on outwards
					// (to the top level, or to an enclosing MACRO) - it never leaves an open parenthesis
					c = c.Parent
					continue
				}
				d.Parent = c
				c.Children = append(c.Children, d)
				cur = d
				return OK
			}
			if c.Explicit {
				return IncorrectContext // the walk never leaves an open parenthesised context
			}
			c = c.Parent
		}
	}
	// A directive is placed when the next directive, a ')' or the end of input follows it (its own '(' comes first): this
	// only decides which of two faults of one document is met first.
	flush := func() string {
		if last == nil || placed {
			return OK
		}
		placed = true
		return place(last)
	}
	for _, e := range events {
		switch e.Type {
		case EvDirective:
			if r := flush(); r != OK {
				return roots, r
			}
			last = &Item{Kind: e.Kind, HasPath: e.HasPath, Off: e.Off}
			placed = false
		case EvOpen:
			if last == nil || last.Explicit {
				// no directive whose context this parenthesis could open (also: the context of the last directive is open already)
				return roots, OrphanOpen
			}
			last.Explicit = true
		case EvClose:
			if r := flush(); r != OK {
				return roots, r
			}
			c := cur
			for {
				if c == nil {
					return roots, NoOpenContext
				}
				if c.Explicit {
					cur = c.Parent
					break
				}
				c = c.Parent
			}
			last = nil
		}
	}
	if r := flush(); r != OK {
		return roots, r
	}
	for c := cur; c != nil; c = c.Parent {
		if c.Explicit {
			return roots, UnclosedContext
		}
	}
	return roots, OK
}

// FromDirectives converts the library's tree.
func FromDirectives(dd []*directive.Directive) []*Item {
	var conv func(d *directive.Directive, parent *Item) *Item
	conv = func(d *directive.Directive, parent *Item) *Item {
		_, b, _ := d.VerifKeywordCoords()
		it := &Item{
			Kind:     d.Type(),
			HasPath:  d.Type().IsHTTPRequestMethod() && d.NamedParameter("Path") != "",
			Off:      int(b),
			Explicit: d.HasExplicitContext,
			Parent:   parent,
		}
		for _, c := range d.Children {
			it.Children = append(it.Children, conv(c, it))
		}
		return it
	}
	var out []*Item
	for _, d := range dd {
		out = append(out, conv(d, nil))
	}
	return out
}

// Render prints a tree canonically: kind@offset(children).
func Render(items []*Item) string {
	var sb strings.Builder
	var rec func(it *Item)
	rec = func(it *Item) {
		fmt.Fprintf(&sb, "%s@%d", it.Kind.String(), it.Off)
		if len(it.Children) > 0 {
			sb.WriteByte('[')
			for i, c := range it.Children {
				if i > 0 {
					sb.WriteByte(' ')
				}
				rec(c)
			}
			sb.WriteByte(']')
		}
	}
	for i, it := range items {
		if i > 0 {
			sb.WriteByte(' ')
		}
		rec(it)
	}
	return sb.String()
}

// Events flattens a resolved tree back into an event sequence (used for the post-expansion reference):
// a directive, '(' if it has an explicit context, its children, ')' likewise.
// paste, if not nil, is asked for the replacement of a PASTE directive (nil result: keep the PASTE).
func Events(items []*Item, paste func(it *Item) []Event) []Event {
	var out []Event
	var rec func(it *Item)
	rec = func(it *Item) {
		if it.Kind == directive.Paste && paste != nil {
			if rep := paste(it); rep != nil {
				out = append(out, rep...)
				return
			}
		}
		out = append(out, Event{Type: EvDirective, Kind: it.Kind, HasPath: it.HasPath, Off: it.Off})
		if it.Explicit {
			out = append(out, Event{Type: EvOpen})
		}
		for _, c := range it.Children {
			rec(c)
		}
		if it.Explicit {
			out = append(out, Event{Type: EvClose})
		}
	}
	for _, it := range items {
		rec(it)
	}
	return out
}
