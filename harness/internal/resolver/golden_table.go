// Code generated from the admissibility table of jsight-api-go-library at the pinned commit (plus the repairs recorded in
// known_findings.json, none of which touches the table). It is the language definition C06 is checked against: the
// reference walk must not ask the library under test what a context admits.
package resolver

var goldenRoot = map[string]bool{
	"JSIGHT": true,
	"INFO":   true,
	"SERVER": true,
	"URL":    true,
	"GET":    true,
	"POST":   true,
	"PUT":    true,
	"PATCH":  true,
	"DELETE": true,
	"TYPE":   true,
	"ENUM":   true,
	"MACRO":  true,
	"PASTE":  true,
	"TAG":    true,
}

var goldenChildren = map[string]map[string]bool{
	"INFO":               {"Title": true, "Version": true, "Description": true, "PASTE": true},
	"SERVER":             {"BaseUrl": true, "PASTE": true},
	"URL":                {"GET": true, "POST": true, "PUT": true, "PATCH": true, "DELETE": true, "Path": true, "PASTE": true, "Protocol": true, "Method": true, "Tags": true},
	"GET":                {"Description": true, "Request": true, "HTTP-response-code": true, "Path": true, "Query": true, "PASTE": true, "Tags": true},
	"POST":               {"Description": true, "Request": true, "HTTP-response-code": true, "Path": true, "Query": true, "PASTE": true, "Tags": true},
	"PUT":                {"Description": true, "Request": true, "HTTP-response-code": true, "Path": true, "Query": true, "PASTE": true, "Tags": true},
	"PATCH":              {"Description": true, "Request": true, "HTTP-response-code": true, "Path": true, "Query": true, "PASTE": true, "Tags": true},
	"DELETE":             {"Description": true, "Request": true, "HTTP-response-code": true, "Path": true, "Query": true, "PASTE": true, "Tags": true},
	"Request":            {"Body": true, "Headers": true, "PASTE": true},
	"HTTP-response-code": {"Body": true, "Headers": true, "PASTE": true},
	"MACRO":              {"INFO": true, "Title": true, "Version": true, "Description": true, "SERVER": true, "BaseUrl": true, "URL": true, "GET": true, "POST": true, "PUT": true, "PATCH": true, "DELETE": true, "Body": true, "Request": true, "HTTP-response-code": true, "Path": true, "Headers": true, "Query": true, "TYPE": true, "ENUM": true, "PASTE": true},
	"Method":             {"Description": true, "Params": true, "Result": true, "Tags": true},
	"TAG":                {"Description": true},
}
