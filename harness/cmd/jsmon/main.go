// jsmon: driver, worker and replay in one binary.
package main

import (
	"flag"
	"fmt"
	"os"
	"path/filepath"
	"strconv"
	"strings"

	_ "verifharness/internal/checks"
	"verifharness/internal/fw"
)

func main() {
	if len(os.Args) < 2 {
		fmt.Fprintln(os.Stderr, "usage: jsmon run <ID> <quick|thorough> | worker … | replay <dir> | aux <name> …")
		os.Exit(2)
	}
	switch os.Args[1] {
	case "run":
		os.Exit(cmdRun(os.Args[2:]))
	case "worker":
		os.Exit(cmdWorker(os.Args[2:]))
	case "replay":
		if len(os.Args) < 3 {
			os.Exit(2)
		}
		os.Exit(fw.ReplayDir(os.Args[2]))
	case "aux":
		if len(os.Args) < 3 {
			os.Exit(2)
		}
		f := fw.LookupAux(os.Args[2])
		if f == nil {
			fmt.Fprintf(os.Stderr, "unknown aux %q\n", os.Args[2])
			os.Exit(2)
		}
		os.Exit(f(os.Args[3:]))
	case "list":
		for _, id := range fw.AllIDs() {
			fmt.Println(id)
		}
	default:
		fmt.Fprintln(os.Stderr, "unknown command")
		os.Exit(2)
	}
}

func seedFromEnv() uint64 {
	if s := os.Getenv("VERIF_SEED"); s != "" {
		if v, err := strconv.ParseInt(s, 10, 64); err == nil {
			return uint64(v)
		}
	}
	return 1
}

func cmdRun(args []string) int {
	if len(args) < 1 {
		return 2
	}
	id := args[0]
	tier := "quick"
	if len(args) > 1 {
		tier = args[1]
	}
	if t := os.Getenv("VERIF_TIER"); t != "" && len(args) < 2 {
		tier = t
	}
	chk := fw.Lookup(id)
	if chk == nil {
		fmt.Fprintf(os.Stderr, "unknown check %q\n", id)
		return 2
	}
	root := os.Getenv("VERIF_ROOT")
	if root == "" {
		root = "/verif"
	}
	self, _ := os.Executable()
	race := filepath.Join(filepath.Dir(self), "jsmon-race")
	if _, err := os.Stat(race); err != nil {
		race = ""
	}
	d := &fw.Driver{Check: chk, Tier: tier, Seed: seedFromEnv(), Root: root, Self: self, RaceBin: race}
	return d.Run()
}

func cmdWorker(args []string) int {
	fs := flag.NewFlagSet("worker", flag.ExitOnError)
	var a fw.WorkerArgs
	var seed uint64
	var skipfile string
	fs.StringVar(&a.CheckID, "check", "", "")
	fs.StringVar(&a.Tier, "tier", "quick", "")
	fs.Uint64Var(&seed, "seed", 1, "")
	fs.IntVar(&a.Shard, "shard", 0, "")
	fs.IntVar(&a.NShards, "nshards", 1, "")
	fs.StringVar(&a.Out, "out", "", "")
	fs.StringVar(&a.Progress, "progress", "", "")
	fs.StringVar(&a.Scratch, "scratch", "", "")
	fs.StringVar(&skipfile, "skipfile", "", "")
	fs.StringVar(&a.Resume, "resume", "", "")
	fs.StringVar(&a.Only, "only", "", "")
	_ = fs.Parse(args)
	a.Seed = seed
	a.Skip = map[string]bool{}
	if skipfile != "" {
		b, _ := os.ReadFile(skipfile)
		for _, l := range strings.Split(string(b), "\n") {
			if l != "" {
				a.Skip[l] = true
			}
		}
	}
	return fw.RunWorker(a)
}
