#!/usr/bin/env python3
"""Confirms a seeded change in a scratch worktree and runs the registered checks against it.

usage: drill.py <PROP> <VARIANT> <src_dir> <demo_dest_dir> [--race] [--checks C01,C09] [--tier quick]

 src_dir holds patch.diff, demo_test.go (or demo/main.go) and README.md.
 Steps: (1) scratch worktree of /repo HEAD under /tmp: apply the patch, run the pinned suite, run the demonstration
 (must fail), revert the patch, run the demonstration (must pass); (2) second scratch worktree with the patch, checks built against it (VERIF_REPO), removed afterwards; (3) store everything under /verif/seeded/<PROP>-<VARIANT>/ with meta.json.
"""
import json, os, shutil, subprocess, sys, time

ENV = dict(os.environ, GOFLAGS="-mod=mod", GOPROXY="off", GOSUMDB="off", GOTOOLCHAIN="local")


def sh(cmd, cwd=None, timeout=3600):
    p = subprocess.run(cmd, shell=True, cwd=cwd, env=ENV, stdout=subprocess.PIPE, stderr=subprocess.STDOUT, timeout=timeout)
    return p.returncode, p.stdout.decode(errors="replace")


def main():
    a = sys.argv[1:]
    prop, variant, src, dest = a[0], a[1], a[2], a[3]
    race = "--race" in a
    checks = [prop]
    tier = "quick"
    runpat = None
    for i, x in enumerate(a):
        if x == "--run":
            runpat = a[i + 1]
        if x == "--checks":
            checks = a[i + 1].split(",")
        if x == "--tier":
            tier = a[i + 1]
    name = f"{prop}-{variant}"
    out = f"/verif/seeded/{name}"
    os.makedirs(out, exist_ok=True)
    patch = os.path.join(src, "patch.diff")
    demo = os.path.join(src, "demo_test.go")
    meta = {"id": name, "property": prop, "source": "independent sub-agent given only the property text and a scratch worktree"}
    wt = f"/tmp/drillwt-{name}"
    sh(f"git -C /repo worktree remove --force {wt}")
    shutil.rmtree(wt, ignore_errors=True)
    rc, o = sh(f"git -C /repo worktree add --detach {wt} HEAD")
    if rc != 0:
        print(o)
        return 2
    try:
        rc, o = sh(f"git apply {patch}", cwd=wt)
        if rc != 0:
            rc, o = sh(f"git apply -3 {patch}", cwd=wt)
        meta["patch_applies_to_head"] = rc == 0
        if rc != 0:
            print("PATCH DOES NOT APPLY:", o[-500:])
            json.dump(meta, open(f"{out}/meta.json", "w"), indent=1)
            return 2
        rc, o = sh("go build ./... && go test -vet=off -count=1 ./...", cwd=wt)
        meta["suite_passes_with_change"] = rc == 0
        if rc != 0:
            meta["suite_output_tail"] = o[-800:]
        demo_name = f"mut_demo_{variant.lower()}_test.go"
        shutil.copy(demo, os.path.join(wt, dest, demo_name))
        flags = "-race " if race else ""
        pat = runpat or f"TestMutDemo{variant}"
        run = f"go test {flags}-vet=off -count=1 -run '{pat}' ./{dest}/"
        rc, o = sh(run, cwd=wt)
        meta["demo_cmd"] = run
        meta["demo_fails_with_change"] = rc != 0
        meta["demo_output_with_change_tail"] = o[-600:]
        sh(f"git apply -R {patch}", cwd=wt)
        rc, o = sh(run, cwd=wt)
        meta["demo_passes_without_change"] = rc == 0
        if rc != 0:
            meta["demo_output_without_change_tail"] = o[-600:]
    finally:
        sh(f"git -C /repo worktree remove --force {wt}")
        shutil.rmtree(wt, ignore_errors=True)
    # run the checks against a scratch worktree with the change applied (VERIF_REPO): /repo itself is never touched
    results = {}
    wt2 = f"/tmp/drillrepo-{name}"
    sh(f"git -C /repo worktree remove --force {wt2}")
    shutil.rmtree(wt2, ignore_errors=True)
    rc, o = sh(f"git -C /repo worktree add --detach {wt2} HEAD")
    try:
        rc, o = sh(f"git apply {patch}", cwd=wt2)
        if rc != 0:
            rc, o = sh(f"git apply -3 {patch}", cwd=wt2)
        env_prefix = f"VERIF_REPO={wt2} "
        for c in checks:
            t0 = time.time()
            rc, o = sh(f"cd /verif && rm -rf replays/{c} && {env_prefix}bin/check {c} {tier}", timeout=7200)
            sigs = [l.strip() for l in o.splitlines() if l.strip().startswith("signature:")]
            results[c] = {"exit": rc, "detected": rc == 1, "signatures": sigs[:6], "wall_s": round(time.time() - t0, 1),
                          "summary": [l for l in o.splitlines() if l.startswith(c + " ")][-1:]}
    finally:
        sh(f"git -C /repo worktree remove --force {wt2}")
        shutil.rmtree(wt2, ignore_errors=True)
        sh("rm -rf /verif/replays")
    meta["checks_run"] = results
    meta["detected_by"] = [c for c, r in results.items() if r["detected"]]
    if os.path.abspath(src) != os.path.abspath(out):
        shutil.copy(patch, f"{out}/patch.diff")
        shutil.copy(demo, f"{out}/demo_test.go")
        if os.path.exists(os.path.join(src, "README.md")):
            shutil.copy(os.path.join(src, "README.md"), f"{out}/README.md")
    meta["demo_destination"] = f"{dest}/mut_demo_{variant.lower()}_test.go"
    old = {}
    if os.path.exists(f"{out}/meta.json"):
        try:
            old = json.load(open(f"{out}/meta.json"))
        except Exception:
            old = {}
    for k in ("needs_to_manifest", "what"):
        if k in old:
            meta[k] = old[k]
    json.dump(meta, open(f"{out}/meta.json", "w"), indent=1)
    ok = meta.get("suite_passes_with_change") and meta.get("demo_fails_with_change") and meta.get("demo_passes_without_change")
    print(f"{name}: confirmed={bool(ok)} detected_by={meta['detected_by']} details={ {c: (r['exit'], r['signatures'][:2]) for c, r in results.items()} }")
    return 0


sys.exit(main())
