#!/bin/bash
# tools/pdrill.sh <srcroot> <VARIANT> <PROP>[:checks] ... — like drill_batch.sh, but every drill runs in its own copy of /verif
# (under /tmp/vc/<PROP>, removed afterwards), so that several run at once without sharing .build/jsmon; the confirmed result
# (patch, demonstration, meta.json) is copied to /verif/seeded/<PROP>-<VARIANT>/. The copies' evidence files are discarded.
SRC="$1"; shift; V="$1"; shift
one() {
  spec="$1"; id="${spec%%:*}"; checks="${spec#*:}"; [ "$checks" = "$spec" ] && checks="$id"
  d="$SRC/$id/out/$V"
  [ -f "$d/patch.diff" ] && [ -f "$d/demo_test.go" ] || { echo "$id-$V: incomplete deliverables"; return; }
  c="/tmp/vc/$id"; rm -rf "$c"; mkdir -p "$c"
  rsync -a --exclude .git --exclude .build --exclude .work --exclude seeded --exclude evidence /verif/ "$c/"; mkdir -p "$c/seeded" "$c/evidence"
  sed -i "s#/verif#$c#g" "$c/tools/drill.py"
  race=""; grep -qi "\-race" "$d/README.md" 2>/dev/null && race="--race"
  python3 "$c/tools/drill.py" "$id" "$V" "$d" test --checks "$checks" $race 2>&1 | tail -1
  mkdir -p "/verif/seeded/$id-$V" && cp -r "$c/seeded/$id-$V/." "/verif/seeded/$id-$V/"
  sed -i "s#$c#/verif#g" "/verif/seeded/$id-$V/meta.json"
  rm -rf "$c"
}
for spec in "$@"; do one "$spec" & done; wait
