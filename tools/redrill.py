#!/usr/bin/env python3
"""Re-runs the check of each seeded change's own property against the change (scratch worktree, VERIF_REPO) at the given
seeds and prints which ones are caught. usage: redrill.py [--tier quick] [--only C07-D,C19-C] seed [seed...]
Nothing is stored: this measures how robust the detections are across seeds."""
import json, os, subprocess, sys, shutil
ROOT = os.path.dirname(os.path.dirname(os.path.abspath(__file__)))
ENV = dict(os.environ, GOFLAGS="-mod=mod", GOPROXY="off", GOSUMDB="off", GOTOOLCHAIN="local")
def sh(cmd, cwd=None, env=None, timeout=7200):
    p = subprocess.run(cmd, shell=True, cwd=cwd, env=env or ENV, stdout=subprocess.PIPE, stderr=subprocess.STDOUT, timeout=timeout)
    return p.returncode, p.stdout.decode(errors="replace")
a = sys.argv[1:]
tier = "quick"; only = None; seeds = []
i = 0
while i < len(a):
    if a[i] == "--tier": tier = a[i+1]; i += 2
    elif a[i] == "--only": only = set(a[i+1].split(",")); i += 2
    else: seeds.append(a[i]); i += 1
names = sorted(d for d in os.listdir(f"{ROOT}/seeded") if os.path.exists(f"{ROOT}/seeded/{d}/patch.diff"))
if only: names = [n for n in names if n in only]
missed = []
for n in names:
    prop = n.split("-")[0]
    wt = f"/tmp/redrill-{os.getpid()}-{n}"
    sh(f"git -C /repo worktree remove --force {wt}"); shutil.rmtree(wt, ignore_errors=True)
    sh(f"git -C /repo worktree add --detach {wt} HEAD")
    try:
        rc, o = sh(f"git apply {ROOT}/seeded/{n}/patch.diff || git apply -3 {ROOT}/seeded/{n}/patch.diff", cwd=wt)
        if rc != 0:
            print(n, "PATCH-DOES-NOT-APPLY"); continue
        res = []
        for s in seeds:
            env = dict(ENV, VERIF_REPO=wt, VERIF_SEED=s)
            rc, o = sh(f"cd {ROOT} && bin/check {prop} {tier}", env=env)
            res.append(f"seed{s}={'caught' if rc == 1 else 'MISSED' if rc == 0 else 'exit%d' % rc}")
            if rc != 1: missed.append((n, s, rc))
        print(n, " ".join(res), flush=True)
    finally:
        sh(f"git -C /repo worktree remove --force {wt}"); shutil.rmtree(wt, ignore_errors=True)
sh(f"rm -rf {ROOT}/replays")
print("missed:", missed)
