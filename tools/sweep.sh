#!/bin/bash
# tools/sweep.sh [tier] [seed...] — runs every registered check (or those named in $CHECKS) on the current tree and prints one line per check.
cd "$(dirname "$0")/.."
TIER="${1:-quick}"; shift
SEEDS="${@:-1}"
rc=0
for s in $SEEDS; do
  for id in ${CHECKS:-C01 C02 C03 C04 C05 C06 C07 C08 C09 C10 C11 C12 C13 C14 C15 C16 C17 C18 C19 C20}; do
    out=$(VERIF_SEED=$s bin/check $id $TIER 2>&1); code=$?
    line=$(echo "$out" | grep "^$id $TIER" | tail -1)
    echo "seed=$s exit=$code $line"
    if [ $code -ne 0 ]; then rc=1; echo "$out" | grep -A2 "^VIOLATION\|^INCONCLUSIVE" | head -12; fi
  done
done
exit $rc
