#!/usr/bin/env python3
"""Regenerates /verif/MANIFEST.json from the table below (one row per built check)."""
import json, os, subprocess
ROOT = os.path.dirname(os.path.dirname(os.path.abspath(__file__)))
props = [json.loads(l) for l in open(os.path.join(ROOT, 'properties.jsonl'))]

HOOK_COMMITS = ["cef4304", "d758f13", "29c8081", "748386c", "c220fb1"]

# id -> (category, text, note, technique, engines)
CHECKS = {
 "C01": ("exploration",
  "held on the observed executions: every generated project is run through the real API in crash-attributing child processes with logical-step budgets; no claim beyond the workloads listed in the evidence",
  "trusts the Go runtime's panic/fatal reporting, the verif-tagged step counters and the build overlay that observes the schema dependency's recover() handler",
  "runtime monitoring: invariant on each execution (outcome classes, recover-site observers, step budgets) over corpus/mutation/enumeration/fault-injection workloads"),
 "C14": ("exploration",
  "held on the observed scans: lexeme-stream invariants checked on every error-free scan of an exhaustive token-sequence space (bounded length) plus coverage-guided mutants; exhaustive only under the stated token bound",
  "trusts the schema library's Len() as the delimiter of schema/enum values and the scanner's public Next() as the observation point",
  "runtime monitoring: invariant checker over the recorded lexeme event stream of the real scanner"),
 "C02": ("exploration",
  "held on the observed rejections: every rejection's file, index, line, quote and include trace is re-derived independently; injected faults additionally pin the directive span; bounded include depth",
  "trusts the verif-tagged accessors for the located file name and raw trace entries; mixed-newline files are range-checked only",
  "runtime monitoring: invariant on each rejected execution, recomputed by an independent reference routine; fault injection into generated include projects"),
 "C09": ("exploration",
  "held on the observed accepted outputs: a structural invariant monitor over the real serialised catalog (duplicate keys via a streaming token decoder, cross-references, id encoding, body/format table, Title())",
  "trusts encoding/json's tokenizer as the JSON reference",
  "runtime monitoring: invariant checker over the serialised output of every accepted execution"),
 "C03": ("exploration",
  "held on the observed repetitions: identical deciding fields over K in-process repetitions, under concurrent load, and across fresh processes with different GOMAXPROCS, on documents built to have several entries in every hashed collection; map orders are sampled, not enumerated",
  "trusts Go's per-range map randomisation as the source of iteration-order diversity",
  "runtime monitoring: relation between repeated executions of the real code (byte equality of observations), in-process, concurrent and cross-process"),
 "C17": ("exploration",
  "held on every string up to the length bound over the stress alphabet (exhaustive under the bound) in the parameter hosts, plus random longer strings; value equality read from the real catalog, error positions compared with a reference tokenizer",
  "trusts the 15-line reference tokenizer for quoted parameters written from the property statement",
  "runtime monitoring: execution vs a small executable reference model, bounded-exhaustive input enumeration"),
 "C15": ("exploration",
  "held on every text up to the symbol bound (exhaustive under the bound) through the real normaliser, and end to end in four hosts and two spellings for the texts the language does not cut; relations from the statement, not a second implementation",
  "trusts the repo's public IsStartWithDirective to decide which texts the bare spelling would cut (those are only checked through the hook)",
  "runtime monitoring: relations between source text and observed catalog text, metamorphic equality of the two spellings, bounded-exhaustive enumeration"),
 "C19": ("exploration",
  "held on all first-segment strings up to the bound (exhaustive) for injectivity of the automatic name, and on the generated tag documents for precedence, sharing, titles and rejection of undeclared tags",
  "trusts the verif-tagged accessors to the real name/title functions; precedence reference is 10 lines written from the statement",
  "runtime monitoring: execution vs reference model (precedence) and exhaustive collision search over the real naming function"),
 "C06": ("exploration",
  "held on every sequence of directive kinds up to the length bound with every placement of one parenthesis pair / lone parenthesis (exhaustive under the bound) and on random longer sequences: the real directive tree and rejection class equal those of a reference walk written from the statement; also after MACRO/PASTE expansion",
  "trusts the frozen copy of the language's admissibility table kept in the harness (generated from the pinned tree; the library's live table is compared with it cell by cell) and the verif-tagged tree accessors",
  "runtime monitoring: execution vs a small executable reference model over hooked state (directive trees), bounded-exhaustive enumeration"),
 "C16": ("exploration",
  "held on the observed schedules: race-detector-instrumented workers run parallel parses, concurrent reads of one catalog, first-use races in fresh processes, and recorded collection histories checked for linearizability (porcupine) plus quiescent-state checks; interleavings are sampled, the evidence counts overlapping histories",
  "trusts the Go race detector and porcupine v1.3.0; the sequential ordered-map model is 40 lines",
  "runtime monitoring: Go race detector over stress workloads + offline linearizability checking of recorded call/return histories against a sequential model"),
 "C04": ("exploration",
  "held on the generated models: the real catalog equals, entry by entry and in source order, the catalog projected from the abstract model by an independent projector, for each model in the canonical and in random renderings; the fragment and its wildcards are listed in the evidence rule",
  "trusts the model-to-catalog projector (written from the statement and the snapshot format, calibrated on hand-written documents) and the order-preserving JSON decoder",
  "runtime monitoring: execution vs executable reference model (model-based oracle over the serialised catalog), grammar-based generation"),
 "C05": ("exploration",
  "held on the observed pairs: verdict and catalog bytes are equal between the canonical rendering of a generated model and its rewritten renderings (random combinations, and exactly one rewriting at each eligible position of small documents), for accepted and for rejected documents, plus newline rewriting of the positive fixtures",
  "trusts the renderer to apply only the rewritings the statement lists at eligible positions (it renders from the model, it never re-parses)",
  "runtime monitoring: metamorphic relation between two executions of the real code (byte equality of verdict and catalog)"),
 "C07": ("exploration",
  "held on the observed twins: if a model rendered with parts moved into (nested) macros is accepted, the same model rendered in place is accepted with a byte-identical catalog (also for directive-kind skeletons with the body substituted textually); unused macro definitions, wherever a top-level directive may stand, change nothing; every cyclic paste digraph up to the bound, undefined and duplicate macros are rejected with a diagnostic within the paste-depth budget",
  "trusts the renderer's paste extraction (one macro per run of sibling elements a MACRO admits) and the verif-tagged paste-depth counter",
  "runtime monitoring: metamorphic relation between two executions of the real code, exhaustive enumeration of small paste digraphs"),
 "C08": ("exploration",
  "held on the observed projects: cut-into-files twins give the same verdict and catalog; every INCLUDE name up to the length bound over the dangerous alphabet (exhaustive under the bound) behaves as the statement says inside a scratch tree with decoy files at every ancestor level; missing/directory/empty/ENOTDIR/ELOOP/cyclic targets give diagnostics; strace shows which files are really opened",
  "trusts strace as the outside observer of file access and the renderer's cut extraction",
  "runtime monitoring: metamorphic relation between two executions, bounded-exhaustive name enumeration end to end, syscall trace (strace) as event log checked offline"),
 "C10": ("exploration",
  "held on the observed permutations: all orders of the top-level blocks for small documents and sampled orders beyond give the same verdict, the same entry contents (matched by key) and collections ordered like the declarations",
  "trusts the model projector only for the expected key order; contents are compared between real executions",
  "runtime monitoring: metamorphic relation between executions of permuted documents (content equality modulo the permutation, order equality with the permutation)"),
 "C11": ("fault_enumeration",
  "held on the injected faults: for generated accepted documents, every fault kind of the statement at the positions it applies to (chosen by index), written directly and carried by PASTE and INCLUDE, is rejected; for direct faults the diagnostic lies inside a directive that takes part in the fault",
  "trusts the renderer's span map for the participants of a fault",
  "runtime monitoring with fault injection: one injected fault per execution, oracle = rejection + location inside the participants' spans"),
 "C12": ("exploration",
  "held on the generated inheritance graphs in several declaration orders: the children of every object with an allOf rule, in user types, bodies, headers, query and JSON-RPC schemas, equal the reference list (bases in order, each key once, marked with the directly named base, own properties last); overrides, non-object and undefined bases are rejected",
  "trusts the model projector's 12-line flattening written from the statement; graphs the schema dependency rejects (a key arriving through two routes) are counted, not judged",
  "runtime monitoring: execution vs executable reference model over the serialised catalog, fault injection for the rejected variants"),
 "C13": ("exploration",
  "held on the generated path trees: pathVariables of every HTTP interaction equal the reference (declared per prefix, in path order, with the declared schema) and every faulty variant of each document is rejected",
  "trusts the model projector's prefix rule (15 lines from the statement)",
  "runtime monitoring: execution vs executable reference model, fault injection for the rejected variants"),
 "C18": ("fault_enumeration",
  "held on the observed (ban set, document) pairs: all 30 single bans and random larger sets against generated accepted documents written directly, through macros and through included files; a hit is rejected with 'directive not allowed' naming a banned kind and (directly) located in such a directive, a banned INCLUDE is refused before its file matters (by diagnostic, and by a syscall trace of on-disk projects in which only the root file may be opened), and a ban that hits nothing changes neither verdict nor catalog bytes",
  "trusts the renderer's span map and a keyword scan of the rendered text for 'which kinds occur'",
  "runtime monitoring over configurations: oracle on each execution under an option set, metamorphic equality with the option-free execution, syscall trace (strace) as event log checked offline"),
 "C20": ("exploration",
  "held on the observed additions and deletions: each of eight kinds of fresh independent declaration at every insertion point of generated accepted documents yields the old catalog plus exactly the new entries; deleting an unreferenced declaration removes exactly its entry",
  "trusts the order-preserving JSON decoder; 'unreferenced' is decided on the rendered text",
  "runtime monitoring: metamorphic relation between two executions (entry-wise catalog comparison)"),
}

def main():
    m = {
     "version": 1,
     "setup_cmd": "bin/build all",
     "hooks": {
      "guard": "verif",
      "enable": "go build -tags verif (bin/build builds harness/cmd/jsmon against /repo's working tree through a replace directive, plus a build overlay on the schema dependency's recover handler)",
      "baseline_off_cmd": "cd /repo && GOFLAGS=-mod=mod go test -vet=off -count=1 -timeout 25m ./...",
      "source_commits": HOOK_COMMITS,
      "add_only": True,
     },
     "engines": [
      {"name": "jsmon", "path": "harness/cmd/jsmon", "serves_properties": sorted(CHECKS),
       "kind_free_text": "driver + crash-attributing worker processes + oracles over observations of the real library (runtime monitoring)"},
      {"name": "jsmon-race", "path": "harness/cmd/jsmon", "serves_properties": ["C16"],
       "kind_free_text": "the same binary built with -race (Go race detector, checkptr)"},
      {"name": "strace", "path": "/usr/bin/strace", "serves_properties": ["C08", "C18"],
       "kind_free_text": "syscall tracer used as outside observer of file access (open/openat/readlink/stat): INCLUDE confinement (C08) and 'a banned INCLUDE reads no file' (C18)"},
      {"name": "porcupine", "path": "harness/internal/checks/c16.go", "serves_properties": ["C16"],
       "kind_free_text": "linearizability checker (porcupine v1.3.0) over recorded collection histories"},
     ],
     "checks": [],
     "notes": "bin/check <ID> <tier> rebuilds the monitor from /repo's current working tree on every invocation. Exit 0 held / 1 violation (VIOLATION line) / 2 inconclusive. Known findings: known_findings.json.",
     "not_applicable": [],
    }
    for p in props:
        i = p['id']
        if i in CHECKS:
            cat, text, note, tech = CHECKS[i]
            m["checks"].append({
             "property_id": i, "quick_cmd": f"bin/check {i} quick", "thorough_cmd": f"bin/check {i} thorough",
             "evidence_file": f"evidence/{i}.json", "replay_cmd_template": ".build/jsmon replay {path}", "engine": "jsmon",
             "level_claimed": {"category": cat, "text": text, "design_ref": f"DESIGN.md §4 {i}"},
             "level_note": note, "technique": tech})
        else:
            m["not_applicable"].append({"property_id": i, "reason": "check not built yet (work in progress; see DESIGN.md §4)"})
    json.dump(m, open(os.path.join(ROOT, 'MANIFEST.json'), 'w'), indent=1)
    print("checks:", [c["property_id"] for c in m["checks"]])

main()
