#!/bin/bash
# tools/drill_batch.sh <srcroot> <variants> <PROP>[:checks] ... — drills each variant of each property's sub-agent output (out/<V>/).
SRC="$1"; shift; VARS="$1"; shift
for spec in "$@"; do
  id="${spec%%:*}"; checks="${spec#*:}"; [ "$checks" = "$spec" ] && checks="$id"
  for v in $VARS; do
    d="$SRC/$id/out/$v"
    [ -f "$d/patch.diff" ] || { echo "$id-$v: no patch"; continue; }
    pkg=$(grep -m1 '^package ' "$d/demo_test.go" | awk '{print $2}'); pkg="${pkg%_test}"
    dest=$(grep -rl --include=*.go -m1 "^package $pkg\$" /repo --exclude-dir=.git 2>/dev/null | head -1 | xargs dirname | sed 's#^/repo/##')
    [ -z "$dest" ] && dest=test
    race=""; grep -qi "\-race" "$d/README.md" && race="--race"
    python3 /verif/tools/drill.py "$id" "$v" "$d" "$dest" --checks "$checks" $race 2>&1 | tail -1
  done
done
